(* Cache.v — model of the version-keyed prepare cache in src/koreo/cache.py:
   prepare_and_cache (50-99), delete_resource_from_cache (102-112),
   delete_from_cache (115-155, the cache part), get_resource_from_cache (21-31),
   get_resource_system_data_from_cache (42-47), _extract_meta (297-315).
   Proof-free and executable; proofs are in proofs/Cache_proofs.v.

   Scope (the C15/C16 boundary): offers here never declare dependencies — the
   preparer returns `(value, None)` or `(value, [])`, or a non-Ok outcome — so
   `_handle_notifications` (cache.py:161-190) neither subscribes to anything nor
   starts a `_monitor_and_reprepare` task, and `_reprepare_and_update_cache`
   never runs.  Everything from cache.py:161 on, `_REPREPARE_TASKS`,
   `_PREPARE_TIMES` and the registry calls made on the way (register, kill,
   deregister: no observable effect on the cache without subscriptions) belong
   to C16 / C17 and are not modelled here.

   The preparer is a parameter [prep]: what `await preparer(name, spec)` does on
   its n-th invocation overall.  That is fully general for a sequential history
   (the invocation index determines whatever else a preparer might depend on). *)
From Koreo Require Export Json.
Local Open Scope list_scope.
Local Open Scope nat_scope.

(* registry.Resource(resource_type=cls, name=name): class index and name *)
Definition key := (nat * string)%type.

Definition key_eqb (a b : key) : bool :=
  Nat.eqb (fst a) (fst b) && String.eqb (snd a) (snd b).

(* a prepared resource is identified by the object the preparer returned *)
Inductive value :=
| VOk (id : nat)      (* first component of an unwrapped-Ok tuple *)
| VErr (id : nat).    (* a DepSkip / Skip / Retry / PermFail outcome object, cached as such *)

(* what one `await preparer(cache_key, copy.deepcopy(spec))` does *)
Inductive presult :=
| POk (id : nat) (empty_list : bool)  (* returns (value, None) or (value, []) *)
| PErr (id : nat)                     (* returns a non-Ok outcome *)
| PRaise.                             (* raises *)

(* __CachedResource *)
Record entry := Entry {
  e_spec : json;              (* the offered spec (not the preparer's copy) *)
  e_value : value;
  e_version : string;
  e_prepared_at : nat;        (* prepare_started_at *)
  e_sysdata : option json
}.

Record state := State {
  cache : list (key * entry);   (* __CACHE (a dict: at most one entry per key) *)
  clock : nat;                  (* number of time.monotonic() calls so far = its next value *)
  preps : list key              (* preparer invocations, most recent first *)
}.

Definition init : state := State [] 0 [].

Fixpoint lookup (k : key) (m : list (key * entry)) : option entry :=
  match m with
  | [] => None
  | (k', e) :: r => if key_eqb k k' then Some e else lookup k r
  end.

(* d[k] = e *)
Fixpoint set_entry (k : key) (e : entry) (m : list (key * entry)) : list (key * entry) :=
  match m with
  | [] => [(k, e)]
  | (k', e') :: r => if key_eqb k k' then (k, e) :: r else (k', e') :: set_entry k e r
  end.

(* del d[k] *)
Fixpoint del_entry (k : key) (m : list (key * entry)) : list (key * entry) :=
  match m with
  | [] => []
  | (k', e') :: r => if key_eqb k k' then del_entry k r else (k', e') :: del_entry k r
  end.

(* metadata as far as _extract_meta looks at it *)
Record meta := Meta {
  m_name : option string;      (* metadata.get("name") *)
  m_version : option string;   (* metadata.get("resourceVersion") *)
  m_labels_ok : bool           (* false: "labels" is not a dict of strings -> AttributeError *)
}.

Inductive exn := TypeError | AttributeError | PreparerError | OtherExn.

Inductive result :=
| RNone
| RValue (v : value)
| REntry (e : entry)
| Raised (x : exn).

Definition nonempty (o : option string) : option string :=
  match o with
  | Some s => if String.eqb s "" then None else Some s
  | None => None
  end.

(* _extract_meta: `if not (resource_name and resource_version): raise TypeError`,
   then the labels are read *)
Definition extract_meta (m : meta) : (string * string) + exn :=
  match nonempty (m_name m), nonempty (m_version m) with
  | Some n, Some v => if m_labels_ok m then inl (n, v) else inr AttributeError
  | _, _ => inr TypeError
  end.

Definition value_of_presult (p : presult) : option value :=
  match p with POk id _ => Some (VOk id) | PErr id => Some (VErr id) | PRaise => None end.

Section WithPreparer.
  Variable prep : key -> json -> nat -> presult.

  (* cache.py:68-99 with no declared dependencies *)
  Definition prepare (k : key) (ver : string) (spec : json) (sys : option json) (s : state)
    : state * result :=
    let started := clock s in
    match prep k spec (List.length (preps s)) with
    | PRaise => (State (cache s) (S (clock s)) (k :: preps s), Raised PreparerError)
    | POk id _ =>
        (State (set_entry k (Entry spec (VOk id) ver started sys) (cache s))
               (S (S (clock s))) (k :: preps s), RValue (VOk id))
    | PErr id =>
        (State (set_entry k (Entry spec (VErr id) ver started sys) (cache s))
               (S (S (clock s))) (k :: preps s), RValue (VErr id))
    end.

  (* prepare_and_cache *)
  Definition offer (cls : nat) (m : meta) (spec : json) (sys : option json) (s : state)
    : state * result :=
    match extract_meta m with
    | inr x => (s, Raised x)
    | inl (name, ver) =>
        let k := (cls, name) in
        match lookup k (cache s) with
        | Some e => if String.eqb (e_version e) ver then (s, RValue (e_value e))
                    else prepare k ver spec sys s
        | None => prepare k ver spec sys s
        end
    end.

  (* delete_from_cache(cls, name, version) *)
  Definition delete (cls : nat) (name : string) (ver : option string) (s : state)
    : state * result :=
    let k := (cls, name) in
    match lookup k (cache s) with
    | None => (s, RNone)
    | Some e =>
        match nonempty ver with
        | Some v => if String.eqb v (e_version e)
                    then (State (del_entry k (cache s)) (S (clock s)) (preps s), RNone)
                    else (s, RNone)
        | None => (State (del_entry k (cache s)) (S (clock s)) (preps s), RNone)
        end
    end.

  (* delete_resource_from_cache(cls, metadata): by name; the metadata's
     resourceVersion must be present but is NOT compared *)
  Definition delete_resource (cls : nat) (m : meta) (s : state) : state * result :=
    match extract_meta m with
    | inr x => (s, Raised x)
    | inl (name, _) => delete cls name None s
    end.

  Inductive op :=
  | Offer (cls : nat) (m : meta) (spec : json) (sys : option json)
  | Delete (cls : nat) (name : string) (ver : option string)
  | DeleteRes (cls : nat) (m : meta)
  | Lookup (cls : nat) (name : string)        (* get_resource_from_cache *)
  | LookupSys (cls : nat) (name : string).    (* get_resource_system_data_from_cache *)

  Definition step (o : op) (s : state) : state * result :=
    match o with
    | Offer cls m spec sys => offer cls m spec sys s
    | Delete cls name ver => delete cls name ver s
    | DeleteRes cls m => delete_resource cls m s
    | Lookup cls name =>
        (s, match lookup (cls, name) (cache s) with Some e => RValue (e_value e) | None => RNone end)
    | LookupSys cls name =>
        (s, match lookup (cls, name) (cache s) with Some e => REntry e | None => RNone end)
    end.

  Definition run (ops : list op) (s : state) : state :=
    fold_left (fun st o => fst (step o st)) ops s.

  (* ---- the background re-prepare, split at its await -------------------------
     cache.py:233-275 _reprepare_and_update_cache (as repaired by 033ed5d).  NOT
     part of the sequential C15 model above (C16 models the tasks and the event
     loop); it is here to state what a re-prepare that overlaps offers / deletes
     of the same resource may do to the cache:
         cached = __CACHE.get(key); started = monotonic()             [rp_begin]
         outcome = await preparer(name, deepcopy(cached.spec))   <- may suspend
         finished = monotonic()
         if __CACHE.get(key) is not cached: return                    [rp_end]
         __CACHE[key] = cached._replace(resource=..., prepared_at=started)
     `is` compares object identity.  Every entry object is created with its own
     prepare_started_at, a fresh reading of the (strictly increasing) clock, so
     in the model two entries are the same object iff their [e_prepared_at]
     agree ([same_object]; Cache_proofs.stamped shows the stamps are fresh). *)
  Definition rp_begin (k : key) (s : state) : option (entry * presult * nat * state) :=
    match lookup k (cache s) with
    | None => None
    | Some e => Some (e, prep k (e_spec e) (List.length (preps s)), clock s,
                      State (cache s) (S (clock s)) (k :: preps s))
    end.

  Definition same_object (a b : entry) : bool := Nat.eqb (e_prepared_at a) (e_prepared_at b).

  Definition rp_end (k : key) (read : entry) (p : presult) (started : nat) (s : state) : state :=
    match value_of_presult p with
    | None => s                                   (* the preparer raised: nothing after the await runs *)
    | Some v =>
        match lookup k (cache s) with
        | Some cur =>
            if same_object cur read
            then State (set_entry k (Entry (e_spec read) v (e_version read) started (e_sysdata read)) (cache s))
                       (S (clock s)) (preps s)
            else State (cache s) (S (clock s)) (preps s)     (* replaced meanwhile: the newer state wins *)
        | None => State (cache s) (S (clock s)) (preps s)    (* deleted meanwhile: stays deleted *)
        end
    end.

  (* ---- the specification: a plain map  key -> (version, result) ---------- *)

  Definition amap := list (key * (string * value)).

  Fixpoint alookup (k : key) (a : amap) : option (string * value) :=
    match a with
    | [] => None
    | (k', x) :: r => if key_eqb k k' then Some x else alookup k r
    end.

  Fixpoint aset (k : key) (x : string * value) (a : amap) : amap :=
    match a with
    | [] => [(k, x)]
    | (k', x') :: r => if key_eqb k k' then (k, x) :: r else (k', x') :: aset k x r
    end.

  Fixpoint adel (k : key) (a : amap) : amap :=
    match a with
    | [] => []
    | (k', x') :: r => if key_eqb k k' then adel k r else (k', x') :: adel k r
    end.

  (* abstract state: the map and how many times the preparer has run *)
  Definition astate := (amap * list key)%type.

  Definition value_of (p : presult) : option value :=
    match p with POk id _ => Some (VOk id) | PErr id => Some (VErr id) | PRaise => None end.

  (* offer: same version -> cached result, nothing prepared; otherwise prepare
     once and remember (version, result), failure or not *)
  Definition aoffer (k : key) (ver : string) (spec : json) (a : astate) : astate * result :=
    let fresh :=
      match value_of (prep k spec (List.length (snd a))) with
      | Some v => ((aset k (ver, v) (fst a), k :: snd a), RValue v)
      | None => ((fst a, k :: snd a), Raised PreparerError)
      end in
    match alookup k (fst a) with
    | Some (ver', v) => if String.eqb ver' ver then (a, RValue v) else fresh
    | None => fresh
    end.

  (* delete by name removes; a delete naming another version does nothing *)
  Definition adelete (k : key) (ver : option string) (a : astate) : astate :=
    match alookup k (fst a), nonempty ver with
    | Some (ver', _), Some v => if String.eqb v ver' then (adel k (fst a), snd a) else a
    | _, _ => (adel k (fst a), snd a)
    end.

  Definition astep (o : op) (a : astate) : astate * result :=
    match o with
    | Offer cls m spec _ =>
        match extract_meta m with
        | inr x => (a, Raised x)
        | inl (name, ver) => aoffer (cls, name) ver spec a
        end
    | Delete cls name ver => (adelete (cls, name) ver a, RNone)
    | DeleteRes cls m =>
        match extract_meta m with
        | inr x => (a, Raised x)
        | inl (name, _) => (adelete (cls, name) None a, RNone)
        end
    | Lookup cls name =>
        (a, match alookup (cls, name) (fst a) with Some (_, v) => RValue v | None => RNone end)
    | LookupSys cls name => (a, RNone)     (* not part of the abstract interface *)
    end.

  (* the abstraction function *)
  Definition abs (s : state) : astate :=
    (map (fun ke => (fst ke, (e_version (snd ke), e_value (snd ke)))) (cache s), preps s).
End WithPreparer.
