(* Validate.v — model of src/koreo/resource_function/reconcile/validate.py
   (validate_match, _obj_to_key, _list_to_object, _validate_dict_match,
   _validate_list_match, _validate_set_match), plus a small self-contained
   model of the comparison/dispatch TAIL of reconcile_krm_resource
   (src/koreo/resource_function/reconcile/__init__.py:315-376).
   Proof-free; proofs are in proofs/Validate_proofs.v and proofs/Fixpoint_proofs.v.

   RESULT TYPE.  `_validate_dict_match` iterates over a Python *set* of keys
   (`set(target.keys()) - KOREO_DIRECTIVE_KEYS`) and returns at the first key
   that does not match — or propagates the first exception.  The iteration
   order of a set of strings is not something a model may depend on, so the
   model does not pick one: the result of a comparison is the SET of
   non-matching outcomes some iteration order can produce,

       { o_false; o_type; o_attr; o_key }   (returns match=False / raises
                                             TypeError / AttributeError / KeyError)

   with the empty set meaning `match=True` (every order agrees on that).  A
   singleton set is a definite verdict.  [o_oom] ("out of model") is set when
   the fuel ran out or when the Python code formats a value whose `str()` is
   not modelled (container / non-integral float inside a compare-as-map key
   field).  Ordered loops (_validate_list_match) stop at the first index whose
   set is non-empty, exactly like the code.

   `last_applied_value[target_key] = None` mutates the dict that was passed in.
   The annotation document comes from json.loads (a tree, no sharing) and each
   sub-document is handed to exactly one recursive call, so the only observable
   effect inside validate_match is that a later read of the same key yields
   None: modelled as a defaulted read ([probe_la]).  The caller
   (reconcile_krm_resource) does not use the document afterwards.

   LIMITS (documented, generators stay inside): tuples never occur (inputs are
   JSON / convert_bools output); no NaN/inf; `str.strip()` is modelled for
   ASCII white space only; f"{x}" is modelled for None / bool / int / str /
   integral floats below 1e16. *)
From Koreo Require Export Json Payload.
From Coq Require Import DecimalString Permutation.
Local Open Scope list_scope.

(* ------------------------------------------------------------------ *)
(* outcome sets                                                        *)
(* ------------------------------------------------------------------ *)

Record outs := { o_false : bool; o_type : bool; o_attr : bool; o_key : bool; o_oom : bool }.

Definition O_match : outs := {| o_false := false; o_type := false; o_attr := false; o_key := false; o_oom := false |}.
Definition O_false : outs := {| o_false := true; o_type := false; o_attr := false; o_key := false; o_oom := false |}.
Definition O_oom : outs := {| o_false := false; o_type := false; o_attr := false; o_key := false; o_oom := true |}.
(* the exception classes validate.py can raise (own type: Payload.exn may grow) *)
Inductive vexn := VTypeError | VAttributeError | VKeyError.
Definition exn_of (e : vexn) : exn :=
  match e with VTypeError => ExTypeError | VAttributeError => ExAttributeError | VKeyError => ExKeyError end.

Definition O_raise (e : vexn) : outs :=
  match e with
  | VTypeError => {| o_false := false; o_type := true; o_attr := false; o_key := false; o_oom := false |}
  | VAttributeError => {| o_false := false; o_type := false; o_attr := true; o_key := false; o_oom := false |}
  | VKeyError => {| o_false := false; o_type := false; o_attr := false; o_key := true; o_oom := false |}
  end.

Definition ounion (a b : outs) : outs :=
  {| o_false := o_false a || o_false b; o_type := o_type a || o_type b;
     o_attr := o_attr a || o_attr b; o_key := o_key a || o_key b; o_oom := o_oom a || o_oom b |}.

Definition is_match (o : outs) : bool :=
  negb (o_false o || o_type o || o_attr o || o_key o || o_oom o).

Definition outs_eqb (a b : outs) : bool :=
  Bool.eqb (o_false a) (o_false b) && Bool.eqb (o_type a) (o_type b) &&
  Bool.eqb (o_attr a) (o_attr b) && Bool.eqb (o_key a) (o_key b) && Bool.eqb (o_oom a) (o_oom b).

(* the definite verdict, when there is one *)
Definition as_res (o : outs) : option (res bool) :=
  if outs_eqb o O_match then Some (Done true)
  else if outs_eqb o O_false then Some (Done false)
  else if outs_eqb o (O_raise VTypeError) then Some (Raised ExTypeError)
  else if outs_eqb o (O_raise VAttributeError) then Some (Raised ExAttributeError)
  else if outs_eqb o (O_raise VKeyError) then Some (Raised ExKeyError)
  else None.

(* small computation monad for the helpers: value / Python exception / out of model *)
Inductive comp (A : Type) := Ret (a : A) | Exc (e : vexn) | Oom.
Arguments Ret {A}. Arguments Exc {A}. Arguments Oom {A}.

Definition outs_of_fail {A} (c : comp A) : outs :=
  match c with Ret _ => O_match | Exc e => O_raise e | Oom => O_oom end.

(* ------------------------------------------------------------------ *)
(* Python string helpers                                               *)
(* ------------------------------------------------------------------ *)

Definition is_cont (c : ascii) : bool :=
  let n := N_of_ascii c in (N.leb 128 n && N.ltb n 192)%bool.

(* (leading continuation bytes of s, the code points after them) *)
Fixpoint u8 (s : string) : string * list string :=
  match s with
  | EmptyString => (EmptyString, [])
  | String c r =>
      let '(p, l) := u8 r in
      if is_cont c then (String c p, l) else (EmptyString, String c p :: l)
  end.

(* iterating a str: its code points (UTF-8 groups) *)
Definition utf8_chars (s : string) : list string :=
  let '(p, l) := u8 s in
  match p with EmptyString => l | _ => p :: l end.

(* `k in s` for two strs *)
Fixpoint is_substr (k s : string) : bool :=
  String.prefix k s ||
  match s with
  | EmptyString => false
  | String _ r => is_substr k r
  end.

Definition is_ws (c : ascii) : bool :=
  let n := N_of_ascii c in
  (N.eqb n 32 || (N.leb 9 n && N.leb n 13) || (N.leb 28 n && N.leb n 31))%bool.

Fixpoint lstrip_l (l : list ascii) : list ascii :=
  match l with
  | c :: r => if is_ws c then lstrip_l r else l
  | [] => []
  end.

Definition strip_ws (s : string) : string :=
  string_of_list_ascii (rev (lstrip_l (rev (lstrip_l (list_ascii_of_string s))))).

Definition z_dec (z : Z) : string := NilZero.string_of_int (Z.to_int z).

(* f"{v}".strip() *)
Definition py_str_stripped (v : json) : comp string :=
  match v with
  | JNull => Ret "None"%string
  | JBool true => Ret "True"%string
  | JBool false => Ret "False"%string
  | JInt z => Ret (z_dec z)
  | JStr s => Ret (strip_ws s)
  | JFloat m e =>
      if (0 <=? e) && (Z.abs (m * 2 ^ e) <? 10 ^ 16)
      then Ret (z_dec (m * 2 ^ e) ++ ".0")%string
      else Oom
  | JList _ | JMap _ => Oom
  end.

(* ------------------------------------------------------------------ *)
(* directives                                                          *)
(* ------------------------------------------------------------------ *)

Definition K_SET : string := "x-koreo-compare-as-set".
Definition K_MAP : string := "x-koreo-compare-as-map".
Definition K_LA : string := "x-koreo-compare-last-applied".
Definition K_OWNERS : string := "ownerReferences".

Definition hashable (j : json) : bool :=
  match j with JList _ | JMap _ => false | _ => true end.

(* `for x in v` *)
Definition py_iter (v : json) : comp (list json) :=
  match v with
  | JList l => Ret l
  | JStr s => Ret (map JStr (utf8_chars s))
  | JMap kvs => Ret (map (fun kv => JStr (fst kv)) kvs)
  | _ => Exc VTypeError
  end.

Fixpoint strs_of (l : list json) : list string :=
  match l with
  | [] => []
  | JStr s :: r => s :: strs_of r
  | _ :: r => strs_of r
  end.

(* {key for key in target.get(D, ()) if key}: only its str members can ever
   equal a target key; a truthy unhashable member raises TypeError *)
Definition key_set (v : option json) : comp (list string) :=
  match v with
  | None => Ret []
  | Some v =>
      match py_iter v with
      | Ret l =>
          if existsb (fun x => py_truthy x && negb (hashable x)) l then Exc VTypeError
          else Ret (strs_of (filter py_truthy l))
      | Exc e => Exc e
      | Oom => Oom
      end
  end.

(* {key: [f for f in fields if f] for key, fields in target.get(MAP, {}).items() if key} *)
Fixpoint map_cfg_items (kvs : list (string * json)) : comp (list (string * list json)) :=
  match kvs with
  | [] => Ret []
  | (k, fields) :: r =>
      if String.eqb k "" then map_cfg_items r else
      match py_iter fields with
      | Ret l =>
          match map_cfg_items r with
          | Ret rest => Ret ((k, filter py_truthy l) :: rest)
          | other => other
          end
      | Exc e => Exc e
      | Oom => Oom
      end
  end.

Definition map_cfg (v : option json) : comp (list (string * list json)) :=
  match v with
  | None => Ret []
  | Some (JMap kvs) => map_cfg_items kvs
  | Some _ => Exc VAttributeError          (* .items() on a non-dict *)
  end.

(* "$".join(f"{obj.get(field)}".strip() for field in fields) *)
Fixpoint key_parts (kvs : list (string * json)) (fields : list json) : comp (list string) :=
  match fields with
  | [] => Ret []
  | f :: r =>
      if negb (hashable f) then Exc VTypeError else
      let v := match f with
               | JStr s => match lookup s kvs with Some v => v | None => JNull end
               | _ => JNull
               end in
      match py_str_stripped v with
      | Ret s => match key_parts kvs r with
                 | Ret rest => Ret (s :: rest)
                 | other => other
                 end
      | Exc e => Exc e
      | Oom => Oom
      end
  end.

Definition obj_key (obj : json) (fields : list json) : comp string :=
  match fields with
  | [] => Ret ""%string
  | _ =>
      match obj with
      | JMap kvs => match key_parts kvs fields with
                    | Ret parts => Ret (join "$" parts)
                    | Exc e => Exc e
                    | Oom => Oom
                    end
      | _ => Exc VAttributeError            (* obj.get on a non-dict *)
      end
  end.

(* {_obj_to_key(obj, key_fields): obj for obj in obj_list} *)
Fixpoint l2o_items (objs : list json) (fields : list json) (acc : list (string * json))
  : comp (list (string * json)) :=
  match objs with
  | [] => Ret acc
  | o :: r =>
      match obj_key o fields with
      | Ret k => l2o_items r fields (set_key k o acc)
      | Exc e => Exc e
      | Oom => Oom
      end
  end.

(* _list_to_object *)
Definition list_to_object (v : json) (fields : list json) : comp json :=
  if negb (py_truthy v) then Ret JNull else
  match py_iter v with
  | Ret objs => match l2o_items objs fields [] with
                | Ret kvs => Ret (JMap kvs)
                | Exc e => Exc e
                | Oom => Oom
                end
  | Exc e => Exc e
  | Oom => Oom
  end.

(* ------------------------------------------------------------------ *)
(* last-applied access in _validate_dict_match                         *)
(* ------------------------------------------------------------------ *)

Inductive la_probe :=
| LaVal (v : json)       (* `k not in la` / `la[k] = None` succeed; la[k] reads v *)
| LaRaiseNow             (* the membership test or the assignment raises TypeError *)
| LaRaiseOnRead.         (* they succeed, a later la[k] raises TypeError *)

Definition probe_la (la : json) (k : string) : la_probe :=
  (* `if not la or not isinstance(la, dict): la = {}` (58b6399): a recorded
     value that is not a non-empty dict is absent; the probe can no longer
     raise ([LaRaiseNow] / [LaRaiseOnRead] are kept for the shape of the
     definitions only) *)
  match la with
  | JMap kvs => LaVal (match lookup k kvs with Some v => v | None => JNull end)
  | _ => LaVal JNull
  end.

Definition read_la (p : la_probe) : comp json :=
  match p with LaVal v => Ret v | _ => Exc VTypeError end.

(* ------------------------------------------------------------------ *)
(* the comparator                                                      *)
(* ------------------------------------------------------------------ *)

(* the value compared as a keyed collection is None or a list of dicts *)
Definition is_jmap (j : json) : bool := match j with JMap _ => true | _ => false end.
Definition shape_ok (cv : json) : bool :=
  match cv with
  | JNull => true
  | JList l => forallb is_jmap l
  | _ => false
  end.

(* the recorded value compared as a keyed collection: anything but a list of
   dicts is absent (34ca0d2) *)
Definition la_items (lav : json) : json :=
  match lav with
  | JList l => if forallb is_jmap l then lav else JNull
  | _ => JNull
  end.

Section Loops.
  (* the recursive call validate_match(target, actual, last_applied_value, compare_list_as_set) *)
  Variable rec : json -> json -> json -> bool -> outs.

  (* one iteration of the `for target_key in target_keys` loop *)
  Definition key_match (sk lk : list string) (cfg : list (string * list json))
             (ak : list (string * json)) (la : json) (k : string) (tv : json) : outs :=
    if String.eqb k K_OWNERS then O_match else
    match probe_la la k with
    | LaRaiseNow => O_raise VTypeError
    | p =>
        let cmp : comp json + outs :=
          if mem_str k lk then inl (read_la p)
          else match lookup k ak with
               | None => inr O_false
               | Some v => inl (Ret v)
               end in
        match cmp with
        | inr o => o
        | inl (Exc e) => O_raise e
        | inl Oom => O_oom
        | inl (Ret cv) =>
            match lookup k cfg with
            | Some fields =>
                (* `if compare_value is not None and not (list of dicts): return mismatch` *)
                if negb (shape_ok cv) then O_false else
                match list_to_object tv fields with
                | Ret T =>
                    match list_to_object cv fields with
                    | Ret A =>
                        match read_la p with
                        | Ret lav =>
                            match list_to_object (la_items lav) fields with
                            | Ret L => rec T A L false
                            | c => outs_of_fail c
                            end
                        | c => outs_of_fail c
                        end
                    | c => outs_of_fail c
                    end
                | c => outs_of_fail c
                end
            | None =>
                match read_la p with
                | Ret lav => rec tv cv lav (mem_str k sk)
                | c => outs_of_fail c
                end
            end
        end
    end.

  (* the loop over set(target.keys()) - KOREO_DIRECTIVE_KEYS: any order *)
  Fixpoint keys_loop (sk lk : list string) (cfg : list (string * list json))
           (ak : list (string * json)) (la : json) (l : list (string * json)) : outs :=
    match l with
    | [] => O_match
    | (k, tv) :: r =>
        if is_directive k then keys_loop sk lk cfg ak la r
        else ounion (key_match sk lk cfg ak la k tv) (keys_loop sk lk cfg ak la r)
    end.

  (* _validate_dict_match *)
  Definition dict_match (tk ak : list (string * json)) (la : json) : outs :=
    match key_set (lookup K_SET tk) with
    | Ret sk =>
        match key_set (lookup K_LA tk) with
        | Ret lk =>
            match map_cfg (lookup K_MAP tk) with
            | Ret cfg => keys_loop sk lk cfg ak la tk
            | c => outs_of_fail c
            end
        | c => outs_of_fail c
        end
    | c => outs_of_fail c
    end.

  (* `for idx, (t, a) in enumerate(zip(target, actual))`: first non-match wins;
     [las] = the last-applied items still ahead (None once exhausted) *)
  Fixpoint list_loop (tl al las : list json) : outs :=
    match tl, al with
    | t :: tr, a :: ar =>
        let o := rec t a (match las with x :: _ => x | [] => JNull end) false in
        if is_match o then list_loop tr ar (match las with _ :: r => r | [] => [] end) else o
    | _, _ => O_match
    end.

  (* _validate_list_match *)
  Definition list_match (tl al : list json) (la : json) : outs :=
    match tl, al with
    | [], [] => O_match
    | _, _ =>
        if negb (Nat.eqb (List.length tl) (List.length al)) then O_false else
        (* `if not isinstance(la, (list, tuple)): la = None` (58b6399) *)
        match la with
        | JList l => list_loop tl al l
        | _ => list_loop tl al []
        end
    end.
End Loops.

(* member of the set {(isinstance(v, bool), v) for v in ...}: the pair keeps a
   bool apart from the int / float it equals (1 and 1.0 are still one member) *)
Definition set_elem_eq (x y : json) : bool :=
  match x, y with
  | JBool a, JBool b => Bool.eqb a b
  | JBool _, _ => false
  | _, JBool _ => false
  | _, _ => py_eq x y
  end.
Definition set_mem (x : json) (l : list json) : bool := existsb (set_elem_eq x) l.

(* _validate_set_match *)
Definition set_match (tl al : list json) : outs :=
  match tl, al with
  | [], [] => O_match
  | _, _ =>
      if negb (forallb hashable tl && forallb hashable al) then O_false   (* set() raised, caught *)
      else if forallb (fun x => set_mem x al) tl && forallb (fun y => set_mem y tl) al
           then O_match else O_false
  end.

(* validate_match; [la] = last_applied_value with None as JNull *)
Fixpoint vmatch_f (n : nat) (t a la : json) (as_set : bool) {struct n} : outs :=
  match t, a with
  | JMap tk, JMap ak =>
      match n with O => O_oom | S n' => dict_match (vmatch_f n') tk ak la end
  | JMap _, _ => O_false
  | _, JMap _ => O_false
  | JList tl, JList al =>
      if as_set then set_match tl al
      else match n with O => O_oom | S n' => list_match (vmatch_f n') tl al la end
  | JList _, _ => O_false
  | _, JList _ => O_false
  | JBool x, JBool y => if Bool.eqb x y then O_match else O_false
  | JBool _, _ => O_false
  | _, JBool _ => O_false
  | _, JNull =>
      if py_truthy t then O_false                               (* case _, None if target *)
      else if py_eq t a then O_match else O_false
  | JNull, _ =>
      if py_truthy a then O_false                               (* case None, _ if actual *)
      else if py_eq t a then O_match else O_false
  | _, _ => if py_eq t a then O_match else O_false
  end.

Fixpoint jdepth (j : json) : nat :=
  match j with
  | JList l => S (fold_right (fun x m => Nat.max (jdepth x) m) O l)
  | JMap kvs =>
      S ((fix go (l : list (string * json)) : nat :=
            match l with
            | [] => O
            | (_, v) :: r => Nat.max (jdepth v) (go r)
            end) kvs)
  | _ => O
  end.

Definition la_arg (la : option json) : json :=
  match la with Some j => j | None => JNull end.

(* validate_match(target, actual, last_applied_value, compare_list_as_set) *)
Definition vmatch (t a : json) (la : option json) (as_set : bool) : outs :=
  vmatch_f (S (jdepth t)) t a (la_arg la) as_set.

(* ------------------------------------------------------------------ *)
(* the tail of reconcile_krm_resource (lines 315-376)                  *)
(* ------------------------------------------------------------------ *)
(* Self-contained model of what happens once the live object was loaded and
   the target materialised: owner_reffed, (convert_bools = identity on JSON),
   _extract_last_applied, validate_match, then the `match crud_config.update`
   dispatch.  Uses Payload.v's line-by-line `_r` helpers. *)

Inductive policy := PNever | PRecreate (d : Z) | PPatch (d : Z).

Inductive call := CPatch (payload : prepared) | CDelete.

Inductive tail_result :=
| TLive (obj : json)              (* ReconcileResult(result=api_resource.raw): go on to postconditions/return *)
| TRetry (d : Z) (loc : string)
| TPermFail                       (* _updated_owner_refs returned a PermFail *)
| TRaised (e : exn).              (* the exception leaves reconcile_krm_resource *)

Record tail_cfg := {
  tc_should_own : bool;           (* crud_config.own_resource and owner_namespace == namespace *)
  tc_owner_ref : json;
  tc_update : policy }.

(* lines 357-376 *)
Definition patch_branch (cfg : tail_cfg) (target live : json) (rr : reffed_result) (d : Z)
  : tail_result * list call :=
  let target' : res (option json) :=
    if tc_should_own cfg && negb (reffed_truthy rr) then
      bind (updated_owner_refs_r live (tc_owner_ref cfg)) (fun r =>
        match r with
        | OwnerPermFail => Done None
        | OwnerRefs refs => bind (set_owner_refs target refs) (fun t' => Done (Some t'))
        end)
    else Done (Some target) in
  match target' with
  | Raised e => (TRaised e, [])
  | Done None => (TPermFail, [])
  | Done (Some t') =>
      match prepare_for_api t' with
      | Done p => (TRetry d "spec.update.patch", [CPatch p])
      | Raised e => (TRaised e, [])
      end
  end.

(* lines 331-376; [verdict] is what validate_match did (Done b = returned match=b) *)
Definition dispatch (cfg : tail_cfg) (target live : json) (rr : reffed_result) (verdict : res bool)
  : tail_result * list call :=
  match verdict with
  | Raised e => (TRaised e, [])
  | Done m =>
      if m && reffed_truthy rr then (TLive live, []) else
      match tc_update cfg with
      | PNever => (TLive live, [])
      | PRecreate d => (TRetry d "spec.update.recreate", [CDelete])
      | PPatch d => patch_branch cfg target live rr d
      end
  end.

(* lines 315-330 then the dispatch.  [ann] = the parsed document of the live
   object's last-applied annotation text (None = not parseable), as in
   Payload.extract_last_applied_r.  Result None: the comparator's verdict
   depends on the iteration order of a Python set or is outside the model, so
   the tail is not predicted. *)
Definition tail (cfg : tail_cfg) (target live : json) (ann : option json)
  : option (tail_result * list call) :=
  match (if tc_should_own cfg then validate_owner_reffed_r live (tc_owner_ref cfg)
         else Done (Reffed true)) with
  | Raised e => Some (TRaised e, [])
  | Done rr =>
      match extract_last_applied_r live ann with
      | Raised e => Some (TRaised e, [])
      | Done la =>
          match as_res (vmatch target live la false) with
          | Some v => Some (dispatch cfg target live rr v)
          | None => None
          end
      end
  end.

(* what the API server does with a call (RFC 7386 for PATCH); None = no object *)
Definition apply_call (live : option json) (c : call) : option json :=
  match c, live with
  | CPatch p, Some l => Some (merge_patch l (body p))
  | CPatch _, None => None
  | CDelete, _ => None
  end.

(* ------------------------------------------------------------------ *)
(* vocabulary of the property statements (C05 / C04)                   *)
(* ------------------------------------------------------------------ *)

Definition is_container (j : json) : bool :=
  match j with JList _ | JMap _ => true | _ => false end.

(* "the same leaf value": Python == on scalars, except that a bool is only
   the same as the same bool (1 vs 1.0 is the same value; 1 vs true is not) *)
Definition leaf_same (t v : json) : bool :=
  match t, v with
  | JBool x, JBool y => Bool.eqb x y
  | JBool _, _ => false
  | _, JBool _ => false
  | _, _ => py_eq t v
  end.

(* the directives of a target map, when they are well-formed enough to be read *)
Definition dirs_of (tk : list (string * json))
  : option (list string * list string * list (string * list json)) :=
  match key_set (lookup K_SET tk), key_set (lookup K_LA tk), map_cfg (lookup K_MAP tk) with
  | Ret sk, Ret lk, Ret cfg => Some (sk, lk, cfg)
  | _, _, _ => None
  end.

(* a key of a target map whose value the comparison looks at in the live
   object: not a directive, not ownerReferences, not compared against
   last-applied *)
Definition specified_key (lk : list string) (k : string) : bool :=
  negb (is_directive k) && negb (String.eqb k K_OWNERS) && negb (mem_str k lk).

Fixpoint list_set {A} (i : nat) (v : A) (l : list A) : list A :=
  match l, i with
  | [], _ => []
  | _ :: r, O => v :: r
  | x :: r, S j => x :: list_set j v r
  end.

Inductive step := SKey (k : string) | SIdx (i : nat).

(* [deviates t s p l l']: the live object l' is l except at the
   target-specified path p, where it differs from what target t specifies
   ([s]: t is compared as a set).  Below a compare-as-map key the path
   continues in the keyed view (_list_to_object) of the list. *)
Inductive deviates : json -> bool -> list step -> json -> json -> Prop :=
| dev_leaf t s l l' :                      (* changed / retyped leaf, leaf turned null or container *)
    is_container t = false -> leaf_same t l' = false -> deviates t s [] l l'
| dev_map_retyped tk s l l' :              (* a map replaced by a non-map *)
    (forall ak, l' <> JMap ak) -> deviates (JMap tk) s [] l l'
| dev_list_retyped tl s l l' :             (* a list replaced by a non-list *)
    (forall al, l' <> JList al) -> deviates (JList tl) s [] l l'
| dev_list_length tl l al' :               (* an ordered list of different length *)
    List.length al' <> List.length tl -> deviates (JList tl) false [] l (JList al')
| dev_set_lost tl l al' x :                (* a set-directed list lost a member *)
    In x tl -> set_mem x al' = false -> deviates (JList tl) true [] l (JList al')
| dev_set_gained tl l al' y :              (* ... gained a member *)
    In y al' -> set_mem y tl = false -> deviates (JList tl) true [] l (JList al')
| dev_key_removed tk s ak k tv sk lk cfg :
    dirs_of tk = Some (sk, lk, cfg) -> lookup k tk = Some tv -> specified_key lk k = true ->
    deviates (JMap tk) s [SKey k] (JMap ak) (JMap (del_key k ak))
| dev_key tk s ak k tv v v' p sk lk cfg :
    dirs_of tk = Some (sk, lk, cfg) -> lookup k tk = Some tv -> specified_key lk k = true ->
    lookup k cfg = None -> lookup k ak = Some v ->
    deviates tv (mem_str k sk) p v v' ->
    deviates (JMap tk) s (SKey k :: p) (JMap ak) (JMap (set_key k v' ak))
| dev_key_as_map tk s ak k tv v v' p sk lk cfg fields T A A' :
    dirs_of tk = Some (sk, lk, cfg) -> lookup k tk = Some tv -> specified_key lk k = true ->
    lookup k cfg = Some fields -> lookup k ak = Some v ->
    list_to_object tv fields = Ret T -> list_to_object v fields = Ret A ->
    list_to_object v' fields = Ret A' ->
    deviates T false p A A' ->
    deviates (JMap tk) s (SKey k :: p) (JMap ak) (JMap (set_key k v' ak))
| dev_key_as_map_retyped tk s ak k tv v' sk lk cfg fields :   (* no longer null / a list of maps *)
    dirs_of tk = Some (sk, lk, cfg) -> lookup k tk = Some tv -> specified_key lk k = true ->
    lookup k cfg = Some fields -> shape_ok v' = false ->
    deviates (JMap tk) s [SKey k] (JMap ak) (JMap (set_key k v' ak))
| dev_idx tl al i t a a' p :
    nth_error tl i = Some t -> nth_error al i = Some a ->
    deviates t false p a a' ->
    deviates (JList tl) false (SIdx i :: p) (JList al) (JList (list_set i a' al)).

(* the paths the property quantifies over: through maps along specified keys
   (never a directive key, an ownerReferences key or a key compared against
   last-applied), through ordered lists by index, through compare-as-map
   lists by the element's key *)
Inductive specified_path : json -> bool -> list step -> Prop :=
| sp_here t s : specified_path t s []
| sp_key_here tk s k tv sk lk cfg :
    dirs_of tk = Some (sk, lk, cfg) -> lookup k tk = Some tv -> specified_key lk k = true ->
    specified_path (JMap tk) s [SKey k]
| sp_key tk s k tv p sk lk cfg :
    dirs_of tk = Some (sk, lk, cfg) -> lookup k tk = Some tv -> specified_key lk k = true ->
    lookup k cfg = None -> specified_path tv (mem_str k sk) p ->
    specified_path (JMap tk) s (SKey k :: p)
| sp_key_as_map tk s k tv p sk lk cfg fields T :
    dirs_of tk = Some (sk, lk, cfg) -> lookup k tk = Some tv -> specified_key lk k = true ->
    lookup k cfg = Some fields -> list_to_object tv fields = Ret T ->
    specified_path T false p ->
    specified_path (JMap tk) s (SKey k :: p)
| sp_idx tl i t p :
    nth_error tl i = Some t -> specified_path t false p ->
    specified_path (JList tl) false (SIdx i :: p).

(* ---- hypotheses on targets (C04; C05's "after a patch") ---- *)

(* a key of a keyed view / of a target that the loop treats as an ordinary key *)
Definition plain_key (k : string) : bool :=
  negb (is_directive k) && negb (String.eqb k K_OWNERS).

(* an element of a compare-as-map list: a map whose key fields are present
   scalars with a modelled f-string, and whose key is an ordinary key *)
Definition elem_ok (fields : list json) (o : json) : bool :=
  match o with
  | JMap okvs =>
      forallb (fun f => match f with
                        | JStr s => plain_key s &&
                                    match lookup s okvs with
                                    | Some v => negb (is_container v)
                                    | None => false
                                    end
                        | _ => false
                        end) fields &&
      match obj_key o fields with
      | Ret ke => plain_key ke
      | _ => false
      end
  | _ => false
  end.

(* well-formed target: unique keys, readable directives, set-directed lists
   hold scalars ("simple" types, as documented), compare-as-map lists hold
   maps with scalar key fields *)
Fixpoint good (t : json) : bool :=
  match t with
  | JList l => forallb good l
  | JMap tk =>
      nodup_str (map fst tk) &&
      match dirs_of tk with
      | None => false
      | Some (sk, _, cfg) =>
          (fix go (l : list (string * json)) : bool :=
             match l with
             | [] => true
             | (k, v) :: r =>
                 (if plain_key k then
                    match lookup k cfg with
                    | Some fields =>
                        match v with
                        | JList objs => forallb (fun o => elem_ok fields o && good o) objs
                        | _ => false
                        end
                    | None =>
                        (if mem_str k sk
                         then match v with JList xs => forallb hashable xs | _ => true end
                         else true) && good v
                    end
                  else true) && go r
             end) tk
      end
  | _ => true
  end.

(* no explicit nulls (the property's quantifier) *)
Fixpoint no_nulls (t : json) : bool :=
  match t with
  | JNull => false
  | JList l => forallb no_nulls l
  | JMap kvs =>
      (fix go (l : list (string * json)) : bool :=
         match l with
         | [] => true
         | (_, v) :: r => no_nulls v && go r
         end) kvs
  | _ => true
  end.

(* [sup t x]: x contains every field target t specifies, with the value t
   gives it (what the API server holds after it stored what was sent for t,
   plus anything else); ownerReferences keys and directive keys of t do not
   constrain x *)
Inductive sup : json -> json -> Prop :=
| sup_scalar t : is_container t = false -> sup t t
| sup_list tl xl : Forall2 sup tl xl -> sup (JList tl) (JList xl)
| sup_map tk xk :
    (forall k tv, In (k, tv) tk -> plain_key k = true ->
       exists xv, lookup k xk = Some xv /\ sup tv xv) ->
    sup (JMap tk) (JMap xk).

(* the target does not itself specify the last-applied annotation *)
Definition ann_free (t : json) : bool :=
  match t with
  | JMap tk =>
      match lookup "metadata" tk with
      | Some (JMap md) =>
          match lookup "annotations" md with
          | Some (JMap an) =>
              match lookup last_applied_key an with None => true | Some _ => false end
          | _ => true
          end
      | _ => true
      end
  | _ => true
  end.

(* ---- server-side decoration (C04) ---- *)

(* [decorates t s l l']: l' is the live object l after the server or other
   actors decorated it, as far as target t can see: in a map anything may
   happen to keys the comparison does not read (keys t does not specify, the
   ownerReferences key, keys compared against last-applied: added, changed or
   dropped), the specified keys stay and their values are decorated in turn;
   ordered lists are decorated element-wise; a set-directed list is
   reordered; a compare-as-map list may be reordered / extended as long as its
   keyed view (_list_to_object) keeps every target-keyed entry, decorated. *)
Inductive decorates : json -> bool -> json -> json -> Prop :=
| dec_same t s l : decorates t s l l
| dec_map tk s ak ak' sk lk cfg :
    dirs_of tk = Some (sk, lk, cfg) ->
    (forall k tv v, In (k, tv) tk -> specified_key lk k = true -> lookup k cfg = None ->
       lookup k ak = Some v ->
       exists v', lookup k ak' = Some v' /\ decorates tv (mem_str k sk) v v') ->
    (forall k tv v fields T A, In (k, tv) tk -> specified_key lk k = true ->
       lookup k cfg = Some fields -> lookup k ak = Some v ->
       list_to_object tv fields = Ret T -> list_to_object v fields = Ret A ->
       exists v' A', lookup k ak' = Some v' /\ shape_ok v' = true /\
                     list_to_object v' fields = Ret A' /\ decorates T false A A') ->
    decorates (JMap tk) s (JMap ak) (JMap ak')
| dec_list tl al al' :
    List.length al' = List.length al ->
    (forall i t a a', nth_error tl i = Some t -> nth_error al i = Some a ->
       nth_error al' i = Some a' -> decorates t false a a') ->
    decorates (JList tl) false (JList al) (JList al')
| dec_set tl al al' :
    Permutation al al' -> decorates (JList tl) true (JList al) (JList al').

(* ---- every tail outcome some key order allows (correspondence only) ---- *)
Definition verdicts (o : outs) : list (res bool) :=
  if o_oom o then [] else
  if is_match o then [Done true] else
  (if o_false o then [Done false] else []) ++
  (if o_type o then [Raised ExTypeError] else []) ++
  (if o_attr o then [Raised ExAttributeError] else []) ++
  (if o_key o then [Raised ExKeyError] else []).

Definition tail_all (cfg : tail_cfg) (target live : json) (ann : option json)
  : list (tail_result * list call) :=
  match (if tc_should_own cfg then validate_owner_reffed_r live (tc_owner_ref cfg)
         else Done (Reffed true)) with
  | Raised e => [(TRaised e, [])]
  | Done rr =>
      match extract_last_applied_r live ann with
      | Raised e => [(TRaised e, [])]
      | Done la => map (dispatch cfg target live rr) (verdicts (vmatch target live la false))
      end
  end.

(* the target does not itself specify metadata.ownerReferences *)
Definition owners_free (t : json) : bool :=
  match t with
  | JMap tk =>
      match lookup "metadata" tk with
      | Some (JMap md) => match lookup K_OWNERS md with None => true | Some _ => false end
      | _ => true
      end
  | _ => true
  end.
