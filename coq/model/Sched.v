(* Sched.v — completion-order semantics of one reconcile pass
   (src/koreo/workflow/reconcile.py: _reconcile_steps creates one task per step,
   a step's task awaits the tasks of its dependencies; _for_each_reconciler
   creates one task per item; results are read back from `task_map` / `tasks`
   in LISTED / SOURCE order after everything has finished).

   The sequential model (Workflow.run_workflow) runs the steps in listed order.
   Here a step may COMPLETE as soon as all its dependencies have completed, in
   any order relative to the other steps; the items of a forEach step complete
   one by one in any order, and the step itself completes (is joined) once all
   its items have.  An event is the completion of a step or of a forEach item.

   What makes completion order the only freedom (the property's hypotheses):
   * calls succeed below the timeout: every task finishes (no Retry-by-timeout,
     Faults.v covers those);
   * steps act on pairwise distinct objects and nobody else changes the
     cluster during the pass: then what an evaluation of Logic returns does not
     depend on what other evaluations have done so far — it is a function
     [rl lg inputs env] of what the step passes to it.  That is exactly what
     the parameter [rl] (instantiated by [run_logic fn_sem]) expresses; with a
     shared object, fn_sem would need the cluster state as an argument and the
     result could depend on the schedule.
   A sub-workflow evaluation is one atomic completion at its parent's level;
   its own steps are scheduled by the same semantics one level down
   (Sched_proofs.nested_schedules_thm composes the levels: all definitions are
   parametric in the evaluator [rl]).  Proof-free: proofs/Sched_proofs.v. *)
From Koreo Require Export Workflow.
Local Open Scope list_scope.

Inductive event :=
| EvStep (l : string)              (* the task of step l finishes (forEach: the join) *)
| EvItem (l : string) (k : nat).    (* the task of item k of forEach step l finishes *)

Record sstate := { st_done : list (string * lres);            (* in completion order *)
                   st_items : list ((string * nat) * lres) }. (* in completion order *)

Definition st_init : sstate := {| st_done := []; st_items := [] |}.

Definition item_eqb (a b : string * nat) : bool :=
  String.eqb (fst a) (fst b) && Nat.eqb (snd a) (snd b).

Fixpoint lookup_item (key : string * nat) (l : list ((string * nat) * lres)) : option lres :=
  match l with
  | [] => None
  | (k, v) :: r => if item_eqb key k then Some v else lookup_item key r
  end.

(* the per-item results read back in SOURCE order: tasks[0], tasks[1], … *)
Fixpoint gather_from (l : string) (k n : nat) (items : list ((string * nat) * lres))
  : option (list lres) :=
  match n with
  | O => Some []
  | S n' => match lookup_item (l, k) items, gather_from l (S k) n' items with
            | Some r, Some rs => Some (r :: rs)
            | _, _ => None
            end
  end.
Definition gather (l : string) (n : nat) items := gather_from l 0%nat n items.

Section Sched.
  Variable rl : logic -> json -> env -> lres.
  Variable steps : list step.
  Variable parent : json.

  Definition find_step (l : string) : option step :=
    find (fun s => String.eqb (s_label s) l) steps.

  Definition is_done (l : string) (st : sstate) : bool := mem_str l (map fst (st_done st)).

  (* `await asyncio.wait(dependencies)`: every dependency's task has finished
     (an ErrorStep has no dependencies) *)
  Definition deps_ready (s : step) (st : sstate) : bool :=
    forallb (fun d => is_done d st) (if is_error_step s then [] else s_deps s).

  Definition add_done (l : string) (r : lres) (st : sstate) : sstate :=
    {| st_done := st_done st ++ [(l, r)]; st_items := st_items st |}.
  Definition add_item (l : string) (k : nat) (r : lres) (st : sstate) : sstate :=
    {| st_done := st_done st; st_items := st_items st ++ [((l, k), r)] |}.

  (* one completion; None = the event cannot happen in this state *)
  Definition exec (st : sstate) (e : event) : option sstate :=
    match e with
    | EvStep l =>
        match find_step l with
        | None => None
        | Some s =>
            if is_done l st || negb (deps_ready s st) then None else
            match step_plan s parent (st_done st) with
            | PDone r => Some (add_done l r st)
            | PCall inputs en => Some (add_done l (push_l (l, None) (rl (s_logic s) inputs en)) st)
            | PEach its en =>
                match gather l (List.length its) (st_items st) with
                | Some rs => Some (add_done l (foreach_assemble rs) st)
                | None => None
                end
            end
        end
    | EvItem l k =>
        match find_step l with
        | None => None
        | Some s =>
            if is_done l st || negb (deps_ready s st) then None else
            match lookup_item (l, k) (st_items st) with
            | Some _ => None
            | None =>
                match step_plan s parent (st_done st) with
                | PEach its en =>
                    match nth_error its k with
                    | Some inp => Some (add_item l k (push_l (l, Some k) (rl (s_logic s) inp en)) st)
                    | None => None
                    end
                | _ => None
                end
            end
        end
    end.

  Fixpoint exec_all (st : sstate) (sched : list event) : option sstate :=
    match sched with
    | [] => Some st
    | e :: r => match exec st e with
                | Some st' => exec_all st' r
                | None => None
                end
    end.

  Definition complete (st : sstate) : bool := forallb (fun s => is_done (s_label s) st) steps.

  (* _reconcile_steps lines 151-216: the results are read from task_map in
     LISTED order, whatever order they completed in *)
  Fixpoint listed (ss : list step) (done : list (string * lres)) : option (list (string * lres)) :=
    match ss with
    | [] => Some []
    | s :: r => match lookup (s_label s) done, listed r done with
                | Some x, Some xs => Some ((s_label s, x) :: xs)
                | _, _ => None
                end
    end.

  (* the Result of a pass whose completions happened in the order [sched] *)
  Definition sched_result (name : string) (sched : list event) : option wres :=
    match exec_all st_init sched with
    | None => None
    | Some st =>
        if complete st
        then match listed steps (st_done st) with
             | Some done => Some (assemble name steps done)
             | None => None
             end
        else None
    end.
End Sched.

(* the canonical schedule: listed order, items in source order *)
Section Canonical.
  Variable rl : logic -> json -> env -> lres.
  Variable parent : json.

  Definition step_events (s : step) (done : list (string * lres)) : list event :=
    match step_plan s parent done with
    | PEach its _ => mapi (fun k _ => EvItem (s_label s) k) its ++ [EvStep (s_label s)]
    | _ => [EvStep (s_label s)]
    end.

  Fixpoint listed_schedule (ss : list step) (done : list (string * lres)) : list event :=
    match ss with
    | [] => []
    | s :: r => step_events s done ++
                listed_schedule r (done ++ [(s_label s, run_step_g rl s parent done)])
    end.
End Canonical.
