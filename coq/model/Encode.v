(* Encode.v — model of koreo.cel.encoder.encode_cel / _encode_str / _encode_plain
   (src/koreo/cel/encoder.py, as repaired by the commit fix: literal strings and map
   keys survive CEL encoding unchanged).

   Texts are lists of bytes ([ascii]) holding the UTF-8 encoding of the Python
   str.  Every string operation of the encoder is byte-transparent under UTF-8:
   the characters it looks at (equals sign, double quote, backslash, code points
   below 0x20, 0x7f, ASCII digits, minus, dot, e, E, plus) are all single bytes < 0x80, and the bytes of
   a multi-byte sequence are all >= 0x80.

   No proofs here (they are in proofs/Encode_proofs.v). *)
From Koreo Require Export Json.
From Coq Require Import Decimal.
Local Open Scope list_scope.

Definition text := list ascii.

Definition txt (s : string) : text := list_ascii_of_string s.
Definition str (t : text) : string := string_of_list_ascii t.

(* ---------- characters ---------- *)

Definition code (c : ascii) : N := N_of_ascii c.
Definition chr (n : N) : ascii := ascii_of_N n.

Definition c_quote  : ascii := """"%char.
Definition c_bslash : ascii := "\"%char.
Definition c_nl     : ascii := "010"%char.
Definition c_cr     : ascii := "013"%char.
Definition c_tab    : ascii := "009"%char.
Definition c_minus  : ascii := "-"%char.
Definition c_plus   : ascii := "+"%char.
Definition c_dot    : ascii := "."%char.
Definition c_eq     : ascii := "="%char.

Definition is_digit (c : ascii) : bool := ((48 <=? code c) && (code c <=? 57))%N.
Definition is_e (c : ascii) : bool := Ascii.eqb c "e"%char || Ascii.eqb c "E"%char.
Definition is_sign (c : ascii) : bool := Ascii.eqb c c_plus || Ascii.eqb c c_minus.

(* number of leading ASCII digits *)
Fixpoint count_digits (t : text) : nat :=
  match t with
  | c :: r => if is_digit c then S (count_digits r) else O
  | [] => O
  end.

(* ---------- the numeral grammar  -?[0-9]+(\.[0-9]+)?([eE][+-]?[0-9]+)?  ---------- *)

Inductive nkind := KInt | KFloat.

Definition strip_minus (t : text) : text :=
  match t with
  | c :: r => if Ascii.eqb c c_minus then r else t
  | [] => t
  end.

(* EXPONENT at the head of [t]:  [eE][+-]?[0-9]+ ; result = its length *)
Definition scan_exp (t : text) : option nat :=
  match t with
  | c :: r =>
      if is_e c then
        match r with
        | s :: r1 =>
            if is_sign s
            then (match count_digits r1 with O => None | n => Some (2 + n)%nat end)
            else (match count_digits r with O => None | n => Some (1 + n)%nat end)
        | [] => None
        end
      else None
  | [] => None
  end.

(* the optional exponent must be everything that is left *)
Definition exp_tail_ok (t : text) : bool :=
  match t with
  | [] => true
  | _ => match scan_exp t with
         | Some n => Nat.eqb n (List.length t)
         | None => false
         end
  end.

(* the part after the optional minus:  [0-9]+(\.[0-9]+)?([eE][+-]?[0-9]+)?  *)
Definition numeral_unsigned (t1 : text) : option nkind :=
  match count_digits t1 with
  | O => None
  | n =>
      match skipn n t1 with
      | [] => Some KInt
      | c :: t3 =>
          if Ascii.eqb c c_dot then
            match count_digits t3 with
            | O => None
            | k => if exp_tail_ok (skipn k t3) then Some KFloat else None
            end
          else if exp_tail_ok (c :: t3) then Some KFloat else None
      end
  end.

(* re.fullmatch(_NUMERAL, t): which kind of numeral [t] is, if any.  KFloat when a
   fraction or an exponent is present. *)
Definition numeral_kind (t : text) : option nkind := numeral_unsigned (strip_minus t).

(* ---------- the f-string of an int value ---------- *)

Fixpoint text_of_uint (u : uint) : text :=
  match u with
  | Nil => []
  | D0 u => "0"%char :: text_of_uint u
  | D1 u => "1"%char :: text_of_uint u
  | D2 u => "2"%char :: text_of_uint u
  | D3 u => "3"%char :: text_of_uint u
  | D4 u => "4"%char :: text_of_uint u
  | D5 u => "5"%char :: text_of_uint u
  | D6 u => "6"%char :: text_of_uint u
  | D7 u => "7"%char :: text_of_uint u
  | D8 u => "8"%char :: text_of_uint u
  | D9 u => "9"%char :: text_of_uint u
  end.

Definition print_Z (z : Z) : text :=
  match Z.to_int z with
  | Pos u => text_of_uint u
  | Neg u => c_minus :: text_of_uint u
  end.

(* ---------- _encode_str ---------- *)

(* _NEEDS_ESCAPE = [\\\x00-\x1f\x7f] *)
Definition needs_escape (c : ascii) : bool :=
  Ascii.eqb c c_bslash || (code c <? 32)%N || (code c =? 127)%N.

Definition hexdig (n : N) : ascii :=
  if (n <? 10)%N then chr (48 + n) else chr (87 + n).      (* lower case, as format 02x *)

(* _ESCAPES[c] (str.translate): what one character becomes in the escaped form *)
Definition esc_char (c : ascii) : text :=
  if Ascii.eqb c c_bslash then [c_bslash; c_bslash]
  else if Ascii.eqb c c_quote then [c_bslash; c_quote]
  else if Ascii.eqb c c_nl then [c_bslash; "n"%char]
  else if Ascii.eqb c c_cr then [c_bslash; "r"%char]
  else if Ascii.eqb c c_tab then [c_bslash; "t"%char]
  else if ((code c <? 32) || (code c =? 127))%N
       then [c_bslash; "x"%char; hexdig (code c / 16); hexdig (code c mod 16)]
  else [c].

Fixpoint escape (t : text) : text :=
  match t with
  | [] => []
  | c :: r => esc_char c ++ escape r
  end.

(* value.replace(dquote, backslash dquote) *)
Fixpoint tq_body (t : text) : text :=
  match t with
  | [] => []
  | c :: r => if Ascii.eqb c c_quote then c_bslash :: c_quote :: tq_body r else c :: tq_body r
  end.

Definition has_quote (t : text) : bool := existsb (fun c => Ascii.eqb c c_quote) t.

Definition q3 : text := [c_quote; c_quote; c_quote].

Definition encode_str (t : text) : text :=
  if existsb needs_escape t then c_quote :: escape t ++ [c_quote]
  else if has_quote t then q3 ++ tq_body t ++ q3
  else c_quote :: t ++ [c_quote].

(* ---------- encode_cel ---------- *)

(* value.lstrip(CEL_PREFIX) *)
Fixpoint lstrip_eq (t : text) : text :=
  match t with
  | c :: r => if Ascii.eqb c c_eq then lstrip_eq r else t
  | [] => []
  end.

Definition starts_with_eq (t : text) : bool :=
  match t with c :: _ => Ascii.eqb c c_eq | [] => false end.

Fixpoint join_comma (l : list text) : text :=
  match l with
  | [] => []
  | [x] => x
  | x :: r => x ++ ","%char :: join_comma r
  end.

Section Enc.
  (* the f-string of a float value, i.e. repr(float): not modelled, a parameter (the
     proofs assume  fparse (fprint m e) = (m, e)  and that the text is a numeral
     with fraction or exponent; the correspondence check instantiates it with
     the texts CPython actually produced and checks both facts on them). *)
  Variable fprint : Z -> Z -> text.

  Definition encode_scalar_str (s : string) : text :=
    let t := txt s in
    match numeral_kind t with
    | Some _ => t                                    (* _encode_plain: the text itself *)
    | None =>
        match t with
        | [] => [c_quote; c_quote]                   (* if not value: two dquotes *)
        | _ => if starts_with_eq t then lstrip_eq t  (* a CEL expression *)
               else encode_str t
        end
    end.

  Fixpoint encode (v : json) : text :=
    match v with
    | JMap kvs =>
        "{"%char ::
        join_comma
          ((fix go (l : list (string * json)) : list text :=
              match l with
              | [] => []
              | (k, x) :: r => (encode_str (txt k) ++ ":"%char :: encode x) :: go r
              end) kvs)
        ++ ["}"%char]
    | JList l => "["%char :: join_comma (map encode l) ++ ["]"%char]
    | JBool true => txt "true"
    | JBool false => txt "false"
    | JNull => txt "null"
    | JInt z => print_Z z
    | JFloat m e => fprint m e
    | JStr s => encode_scalar_str s
    end.
End Enc.
