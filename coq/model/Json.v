(* Json.v — shared value model: JSON-like documents as koreo-core handles them
   (Python dict/list/str/int/float/bool/None).  No proofs about koreo here;
   only the datatype, its induction principle and basic executable helpers. *)
From Coq Require Export List ZArith String Ascii Bool.
From Coq Require Import Lia.
Export ListNotations.
Open Scope string_scope.
Open Scope Z_scope.

(* Strings are Coq [string]s holding the UTF-8 bytes of the Python str. *)

(* Build a string from a list of byte values (used by generated case files for
   strings that are not plain printable ASCII). *)
Fixpoint bs (l : list N) : string :=
  match l with
  | [] => EmptyString
  | b :: r => String (ascii_of_N b) (bs r)
  end.

Inductive json : Type :=
| JNull
| JBool (b : bool)
| JInt (z : Z)
| JFloat (m e : Z)                 (* the dyadic m * 2^e, m odd or (0,0) *)
| JStr (s : string)
| JList (l : list json)
| JMap (kvs : list (string * json)). (* insertion ordered, like dict *)

(* Induction principle that reaches inside the nested lists. *)
Section JsonInd.
  Variable P : json -> Prop.
  Hypothesis Hnull : P JNull.
  Hypothesis Hbool : forall b, P (JBool b).
  Hypothesis Hint : forall z, P (JInt z).
  Hypothesis Hfloat : forall m e, P (JFloat m e).
  Hypothesis Hstr : forall s, P (JStr s).
  Hypothesis Hlist : forall l, Forall P l -> P (JList l).
  Hypothesis Hmap : forall kvs, Forall (fun kv => P (snd kv)) kvs -> P (JMap kvs).

  Fixpoint json_ind' (j : json) : P j :=
    match j with
    | JNull => Hnull
    | JBool b => Hbool b
    | JInt z => Hint z
    | JFloat m e => Hfloat m e
    | JStr s => Hstr s
    | JList l =>
        Hlist l ((fix go (l : list json) : Forall P l :=
                    match l with
                    | [] => Forall_nil _
                    | x :: r => Forall_cons _ (json_ind' x) (go r)
                    end) l)
    | JMap kvs =>
        Hmap kvs ((fix go (l : list (string * json)) : Forall (fun kv => P (snd kv)) l :=
                     match l with
                     | [] => Forall_nil _
                     | (k, v) :: r => Forall_cons (k, v) (json_ind' v) (go r)
                     end) kvs)
    end.
End JsonInd.

(* ---------- association-list helpers (Python dict behaviour) ---------- *)

Fixpoint lookup {A} (k : string) (kvs : list (string * A)) : option A :=
  match kvs with
  | [] => None
  | (k', v) :: r => if String.eqb k k' then Some v else lookup k r
  end.

(* d[k] = v : replace in place if present, else append at the end *)
Fixpoint set_key {A} (k : string) (v : A) (kvs : list (string * A)) : list (string * A) :=
  match kvs with
  | [] => [(k, v)]
  | (k', v') :: r => if String.eqb k k' then (k', v) :: r else (k', v') :: set_key k v r
  end.

Fixpoint del_key {A} (k : string) (kvs : list (string * A)) : list (string * A) :=
  match kvs with
  | [] => []
  | (k', v') :: r => if String.eqb k k' then del_key k r else (k', v') :: del_key k r
  end.

Definition keys {A} (kvs : list (string * A)) : list string := map fst kvs.

Fixpoint mem_str (k : string) (l : list string) : bool :=
  match l with
  | [] => false
  | x :: r => String.eqb k x || mem_str k r
  end.

(* ---------- structural equality (dict order-insensitive, like Python ==
   restricted to same-typed scalars; bool/int/float cross-type equality is
   [py_eq] below) ---------- *)

Definition float_eqb (m1 e1 m2 e2 : Z) : bool := (m1 =? m2) && (e1 =? e2).

Fixpoint json_eqb (a b : json) {struct a} : bool :=
  match a, b with
  | JNull, JNull => true
  | JBool x, JBool y => Bool.eqb x y
  | JInt x, JInt y => x =? y
  | JFloat m1 e1, JFloat m2 e2 => float_eqb m1 e1 m2 e2
  | JStr x, JStr y => String.eqb x y
  | JList xs, JList ys =>
      (fix go (xs ys : list json) : bool :=
         match xs, ys with
         | [], [] => true
         | x :: xr, y :: yr => json_eqb x y && go xr yr
         | _, _ => false
         end) xs ys
  | JMap xs, JMap ys =>
      (Nat.eqb (List.length xs) (List.length ys)) &&
      (fix go (xs : list (string * json)) : bool :=
         match xs with
         | [] => true
         | (k, v) :: xr =>
             match lookup k ys with
             | Some w => json_eqb v w && go xr
             | None => false
             end
         end) xs
  | _, _ => false
  end.

(* Python truthiness *)
Definition py_truthy (j : json) : bool :=
  match j with
  | JNull => false
  | JBool b => b
  | JInt z => negb (z =? 0)
  | JFloat m _ => negb (m =? 0)
  | JStr s => negb (String.eqb s "")
  | JList l => match l with [] => false | _ => true end
  | JMap l => match l with [] => false | _ => true end
  end.

(* numeric view used by Python == across bool/int/float *)
Definition num_view (j : json) : option (Z * Z) :=   (* m, e with value m*2^e *)
  match j with
  | JBool b => Some ((if b then 1 else 0), 0)
  | JInt z => Some (z, 0)
  | JFloat m e => Some (m, e)
  | _ => None
  end.

Definition dyadic_eqb (a b : Z * Z) : bool :=
  let '(m1, e1) := a in let '(m2, e2) := b in
  let e := Z.min e1 e2 in
  (m1 * 2 ^ (e1 - e)) =? (m2 * 2 ^ (e2 - e)).

(* Python == on JSON-shaped values: numbers compare by value across
   bool/int/float, containers recursively, dicts order-insensitively. *)
Fixpoint py_eq (a b : json) {struct a} : bool :=
  match num_view a, num_view b with
  | Some x, Some y => dyadic_eqb x y
  | Some _, None | None, Some _ => false
  | None, None =>
      match a, b with
      | JNull, JNull => true
      | JStr x, JStr y => String.eqb x y
      | JList xs, JList ys =>
          (fix go (xs ys : list json) : bool :=
             match xs, ys with
             | [], [] => true
             | x :: xr, y :: yr => py_eq x y && go xr yr
             | _, _ => false
             end) xs ys
      | JMap xs, JMap ys =>
          (Nat.eqb (List.length xs) (List.length ys)) &&
          (fix go (xs : list (string * json)) : bool :=
             match xs with
             | [] => true
             | (k, v) :: xr =>
                 match lookup k ys with
                 | Some w => py_eq v w && go xr
                 | None => false
                 end
             end) xs
      | _, _ => false
      end
  end.

(* well-formed: dict keys unique, recursively *)
Fixpoint nodup_str (l : list string) : bool :=
  match l with
  | [] => true
  | x :: r => negb (mem_str x r) && nodup_str r
  end.

Fixpoint wf (j : json) : bool :=
  match j with
  | JList l => forallb wf l
  | JMap kvs =>
      nodup_str (map fst kvs) &&
      (fix go (l : list (string * json)) : bool :=
         match l with
         | [] => true
         | (_, v) :: r => wf v && go r
         end) kvs
  | _ => true
  end.

(* ---------- option/string helpers shared by several models ---------- *)

Definition opt_text (o : option string) : string :=
  match o with None => "" | Some s => s end.

Definition str_nonempty (s : string) : bool := negb (String.eqb s "").

Fixpoint join (sep : string) (l : list string) : string :=
  match l with
  | [] => ""
  | [x] => x
  | x :: r => x ++ sep ++ join sep r
  end.
