(* CelLit.v — what lark 0.12 + cel-python 0.3.0 do with the texts encode_cel
   produces (and with near misses of them): a model of

   * the tokenisation of celpy/cel.lark for the terminals that can occur in an
     encoded literal: the six punctuation marks, BOOL_LIT / NULL_LIT (lexed as
     IDENT and re-typed), INT_LIT, FLOAT_LIT, and the double-quoted cooked
     STRING_LIT / MLSTRING_LIT.  Python's re module matches these by
     backtracking with lazy quantifiers; scan_str / scan_ml below are that
     depth-first search written as structural recursion;
   * the LALR parse of the resulting tokens for list and map literals;
   * evaluation of the literal nodes: celpy.evaluation.celstr (un-escaping),
     IntType (int64 range check), DoubleType (Python float()).

   Everything else (identifiers, operators, single-quoted / raw / bytes strings,
   the u and U escapes, indexing, ...) is reported as [ROOF] (outside the
   modelled fragment) and never as agreement.

   Third-party code: this model is hand-written from the sources of lark/celpy
   and tied to them only by the correspondence check (harness/props/C11.py).
   No proofs here. *)
From Koreo Require Export Json Encode.
Local Open Scope list_scope.

(* ---------- tokens ---------- *)

Inductive token :=
| TLBrace | TRBrace | TLBrack | TRBrack | TComma | TColon
| TTrue | TFalse | TNull
| TInt (t : text)                 (* INT_LIT, the matched text *)
| TFloat (t : text)               (* FLOAT_LIT, the matched text *)
| TStr (ml : bool) (body : text). (* (ML)STRING_LIT, the text between the quotes *)

Inductive lexres := LexOk (l : list token) | LexErr | LexOOF.

Definition lcons (tok : token) (r : lexres) : lexres :=
  match r with LexOk l => LexOk (tok :: l) | _ => r end.

(* WHITESPACE : [\t\n\f\r ]+ *)
Definition is_ws (c : ascii) : bool :=
  let n := code c in ((n =? 9) || (n =? 10) || (n =? 12) || (n =? 13) || (n =? 32))%N.

Definition is_ident_start (c : ascii) : bool :=
  let n := code c in
  (((65 <=? n) && (n <=? 90)) || ((97 <=? n) && (n <=? 122)) || (n =? 95))%N.

Definition is_ident_char (c : ascii) : bool := is_ident_start c || is_digit c.

Fixpoint count_ident (t : text) : nat :=
  match t with
  | c :: r => if is_ident_char c then S (count_ident r) else O
  | [] => O
  end.

Definition punct (c : ascii) : option token :=
  if Ascii.eqb c "{"%char then Some TLBrace
  else if Ascii.eqb c "}"%char then Some TRBrace
  else if Ascii.eqb c "["%char then Some TLBrack
  else if Ascii.eqb c "]"%char then Some TRBrack
  else if Ascii.eqb c ","%char then Some TComma
  else if Ascii.eqb c ":"%char then Some TColon
  else None.

Fixpoint text_eqb (a b : text) : bool :=
  match a, b with
  | [], [] => true
  | x :: a', y :: b' => Ascii.eqb x y && text_eqb a' b'
  | _, _ => false
  end.

Definition keyword (w : text) : option token :=
  if text_eqb w (txt "true") then Some TTrue
  else if text_eqb w (txt "false") then Some TFalse
  else if text_eqb w (txt "null") then Some TNull
  else None.

(* the two-character escapes (backslash + one of a b f n r t v dquote quote
   backslash) and what celstr maps them to *)
Definition esc2 (c : ascii) : option ascii :=
  if Ascii.eqb c "a"%char then Some (chr 7)
  else if Ascii.eqb c "b"%char then Some (chr 8)
  else if Ascii.eqb c "f"%char then Some (chr 12)
  else if Ascii.eqb c "n"%char then Some (chr 10)
  else if Ascii.eqb c "r"%char then Some (chr 13)
  else if Ascii.eqb c "t"%char then Some (chr 9)
  else if Ascii.eqb c "v"%char then Some (chr 11)
  else if Ascii.eqb c c_quote then Some c_quote
  else if Ascii.eqb c "'"%char then Some "'"%char
  else if Ascii.eqb c c_bslash then Some c_bslash
  else None.

Definition is_esc2 (c : ascii) : bool := match esc2 c with Some _ => true | None => false end.

(* STRING_LIT body: dquote (?: escape | . )*? dquote  with [t] the text after
   the opening quote; result = number of body characters before the closing
   quote that Python's backtracking matcher settles on.  At each position: try
   to close; else try a two-character escape and, only if the rest then cannot
   be closed, fall back to [.] on the backslash; [.] does not match a newline.
   (The longer escapes -- octal, x, u -- consist of characters that [.] consumes
   one by one with the same outcome, so they need no case of their own here.) *)
Fixpoint scan_str (t : text) : option nat :=
  match t with
  | [] => None
  | c :: r =>
      if Ascii.eqb c c_quote then Some O
      else if Ascii.eqb c c_nl then None
      else if Ascii.eqb c c_bslash then
        match r with
        | c2 :: r2 =>
            if is_esc2 c2 then
              match scan_str r2 with
              | Some n => Some (S (S n))
              | None => option_map S (scan_str r)
              end
            else option_map S (scan_str r)
        | [] => None
        end
      else option_map S (scan_str r)
  end.

(* MLSTRING_LIT body, [t] the text after the opening three quotes: newlines
   are allowed, the close is three quotes *)
Definition starts2 (r : text) : bool :=      (* two more quotes follow *)
  match r with
  | q2 :: q3 :: _ => Ascii.eqb q2 c_quote && Ascii.eqb q3 c_quote
  | _ => false
  end.

Fixpoint scan_ml (t : text) : option nat :=
  match t with
  | [] => None
  | c :: r =>
      if Ascii.eqb c c_quote && starts2 r then Some O
      else if Ascii.eqb c c_bslash then
        match r with
        | c2 :: r2 =>
            if is_esc2 c2 then
              match scan_ml r2 with
              | Some n => Some (S (S n))
              | None => option_map S (scan_ml r)
              end
            else option_map S (scan_ml r)
        | [] => None
        end
      else option_map S (scan_ml r)
  end.

(* [r] = text after an opening quote; result = token and how many characters of
   [r] belong to it.  MLSTRING_LIT is tried before STRING_LIT. *)
Definition lex_string (r : text) : option (token * nat) :=
  let short := match scan_str r with
               | Some n => Some (TStr false (firstn n r), S n)
               | None => None
               end in
  if starts2 r then
    match scan_ml (skipn 2 r) with
    | Some n => Some (TStr true (firstn n (skipn 2 r)), (2 + n + 3)%nat)
    | None => short
    end
  else short.

(* FLOAT_LIT : -?D+.D*(EXP)? | -?D*.D+(EXP)? | -?D+EXP   then INT_LIT : -?D+
   (first alternative that matches), on the text after the optional minus;
   result = which terminal and how many characters *)
Definition scan_unsigned (t1 : text) : option (nkind * nat) :=
  let n := count_digits t1 in
  let t2 := skipn n t1 in
  let nodot :=
    match n with
    | O => None
    | _ => match scan_exp t2 with
           | Some x => Some (KFloat, (n + x)%nat)
           | None => Some (KInt, n)
           end
    end in
  match t2 with
  | c :: t3 =>
      if Ascii.eqb c c_dot then
        let k := count_digits t3 in
        match n, k with
        | O, O => None
        | _, _ =>
            let x := match scan_exp (skipn k t3) with Some x => x | None => O end in
            Some (KFloat, (n + 1 + k + x)%nat)
        end
      else nodot
  | [] => nodot
  end.

Definition scan_num (t : text) : option (nkind * nat) :=
  match t with
  | c :: r =>
      if Ascii.eqb c c_minus
      then match scan_unsigned r with Some (k, n) => Some (k, S n) | None => None end
      else scan_unsigned t
  | [] => None
  end.

Definition num_tok (k : nkind) (t : text) : token :=
  match k with KInt => TInt t | KFloat => TFloat t end.

(* characters no terminal of cel.lark can start with: lark raises
   UnexpectedCharacters, i.e. a parse error *)
Definition unlexable (c : ascii) : bool :=
  let n := code c in
  ((128 <=? n) || ((n <? 32) && negb (is_ws c)) || (n =? 127) ||
   (n =? 92) || (n =? 35) || (n =? 36) || (n =? 64) || (n =? 96) || (n =? 126) || (n =? 94) || (n =? 59))%N.

(* a number directly followed by one of these is something the model does not
   cover (1u, 0x1F, 1e, 1.2.3, 1.size()) *)
Definition bad_follow (o : option ascii) : bool :=
  match o with
  | Some c => is_ident_char c || Ascii.eqb c c_dot
  | None => false
  end.

(* [skip] characters of the current token are still to be passed over *)
Fixpoint lex (skip : nat) (t : text) {struct t} : lexres :=
  match t with
  | [] => match skip with O => LexOk [] | S _ => LexErr end
  | c :: r =>
      match skip with
      | S k => lex k r
      | O =>
          if is_ws c then lex 0 r
          else
            match punct c with
            | Some tok => lcons tok (lex 0 r)
            | None =>
                if Ascii.eqb c c_quote then
                  match lex_string r with
                  | Some (tok, n) => lcons tok (lex n r)
                  | None => LexErr
                  end
                else if is_ident_start c then
                  let n := count_ident r in
                  match keyword (c :: firstn n r) with
                  | Some tok => lcons tok (lex n r)
                  | None => LexOOF
                  end
                else if is_digit c || Ascii.eqb c c_minus || Ascii.eqb c c_dot then
                  match scan_num (c :: r) with
                  | Some (k, len) =>
                      if bad_follow (nth_error (c :: r) len) then LexOOF
                      else lcons (num_tok k (firstn len (c :: r))) (lex (len - 1) r)
                  | None => LexOOF
                  end
                else if unlexable c then LexErr
                else LexOOF
            end
      end
  end.

(* ---------- parser: a pushdown automaton over the tokens ---------- *)

Inductive ast := ALit (t : token) | AList (l : list ast) | AMap (l : list (ast * ast)).

Inductive frame :=
| FL (done : list ast)                              (* inside [ ; items so far, reversed *)
| FM (done : list (ast * ast)) (key : option ast).  (* inside { ; pairs so far, reversed *)

Inductive pstate := PWantVal | PWantValOrClose | PAfterItem | PAfterKey | PDone (a : ast).

Inductive pres := POk (a : ast) | PErr | POOF.

Definition is_lit (t : token) : bool :=
  match t with
  | TTrue | TFalse | TNull | TInt _ | TFloat _ | TStr _ _ => true
  | _ => false
  end.

Definition is_neg_num (t : token) : bool :=
  match t with
  | TInt (c :: _) | TFloat (c :: _) => Ascii.eqb c c_minus
  | _ => false
  end.

(* a token that continues a complete expression in the real grammar (indexing,
   message construction, subtraction): outside the fragment *)
Definition continues (t : token) : bool :=
  match t with
  | TLBrack | TLBrace => true
  | _ => is_neg_num t
  end.

(* a complete value [a] has been read below the frames [stk] *)
Definition reduce (stk : list frame) (a : ast) : list frame * pstate :=
  match stk with
  | [] => ([], PDone a)
  | FL done :: s => (FL (a :: done) :: s, PAfterItem)
  | FM done None :: s => (FM done (Some a) :: s, PAfterKey)
  | FM done (Some k) :: s => (FM ((k, a) :: done) None :: s, PAfterItem)
  end.

Fixpoint run (stk : list frame) (st : pstate) (toks : list token) {struct toks} : pres :=
  match toks with
  | [] => match st with PDone a => POk a | _ => PErr end
  | tok :: r =>
      match st with
      | PWantVal | PWantValOrClose =>
          if is_lit tok then
            let '(stk', st') := reduce stk (ALit tok) in run stk' st' r
          else
            match tok with
            | TLBrack => run (FL [] :: stk) PWantValOrClose r
            | TLBrace => run (FM [] None :: stk) PWantValOrClose r
            | TRBrack =>
                match st, stk with
                | PWantValOrClose, FL [] :: s =>
                    let '(s', st') := reduce s (AList []) in run s' st' r
                | _, _ => PErr
                end
            | TRBrace =>
                match st, stk with
                | PWantValOrClose, FM [] None :: s =>
                    let '(s', st') := reduce s (AMap []) in run s' st' r
                | _, _ => PErr
                end
            | _ => PErr
            end
      | PAfterItem =>
          match tok, stk with
          | TComma, _ :: _ => run stk PWantVal r
          | TRBrack, FL done :: s =>
              let '(s', st') := reduce s (AList (rev done)) in run s' st' r
          | TRBrace, FM done None :: s =>
              let '(s', st') := reduce s (AMap (rev done)) in run s' st' r
          | _, _ => if continues tok then POOF else PErr
          end
      | PAfterKey =>
          match tok with
          | TColon => run stk PWantVal r
          | _ => if continues tok then POOF else PErr
          end
      | PDone _ => if continues tok then POOF else PErr
      end
  end.

Definition parse (toks : list token) : pres := run [] PWantVal toks.

(* ---------- evaluation of literals ---------- *)

Inductive res (A : Type) := ROk (a : A) | RParse | REval | ROOF.
Arguments ROk {A} a.
Arguments RParse {A}.
Arguments REval {A}.
Arguments ROOF {A}.

Definition lit_result := res json.

Definition rbind2 {A B C} (a : res A) (b : res B) (f : A -> B -> C) : res C :=
  match a, b with
  | ROOF, _ | _, ROOF => ROOF
  | RParse, _ | _, RParse => RParse
  | REval, _ | _, REval => REval
  | ROk x, ROk y => ROk (f x y)
  end.

(* -- numbers -- *)

Fixpoint digits_val (acc : Z) (t : text) : Z :=
  match t with
  | [] => acc
  | c :: r => digits_val (acc * 10 + (Z.of_N (code c) - 48)) r
  end.

(* Python int() on -?D+ *)
Definition int_of_text (t : text) : Z :=
  match t with
  | c :: r => if Ascii.eqb c c_minus then - digits_val 0 r else digits_val 0 t
  | [] => 0
  end.

Definition in_int64 (z : Z) : bool := (- 2 ^ 63 <=? z) && (z <? 2 ^ 63).

Fixpoint strip2 (p : positive) (e : Z) : Z * Z :=
  match p with
  | xO p' => strip2 p' (e + 1)
  | _ => (Zpos p, e)
  end.

(* the dyadic q * 2^e with q made odd *)
Definition normalize (q e : Z) : Z * Z :=
  match q with Zpos p => strip2 p e | _ => (0, 0) end.

(* n * 10^E (n > 0 with nd decimal digits) rounded to the nearest binary64,
   ties to even; None = overflow (Python gives inf) *)
Definition round_dyadic (n E nd : Z) : option (Z * Z) :=
  if nd + E >? 310 then None
  else if nd + E <? -330 then Some (0, 0)
  else
    let num := if 0 <=? E then n * 10 ^ E else n in
    let den := if 0 <=? E then 1 else 10 ^ (- E) in
    let k := Z.log2 num - Z.log2 den in
    let fl := fun e => if 0 <=? e then (num, den * 2 ^ e) else (num * 2 ^ (- e), den) in
    let e1 := k - 52 in
    let '(a1, d1) := fl e1 in
    let e2 := if a1 / d1 <? 2 ^ 52 then e1 - 1 else e1 in
    let e3 := Z.max e2 (-1074) in
    let '(a, d) := fl e3 in
    let q := a / d in
    let r := a mod d in
    let q' := match 2 * r ?= d with
              | Gt => q + 1
              | Eq => if Z.even q then q else q + 1
              | Lt => q
              end in
    if q' =? 0 then Some (0, 0)
    else if Z.log2 q' + e3 >=? 1024 then None
    else Some (normalize q' e3).

Fixpoint strip_zeros (t : text) : text :=
  match t with
  | c :: r => if Ascii.eqb c "0"%char then strip_zeros r else t
  | [] => []
  end.

(* value of an optional exponent that must be the whole of [t] *)
Definition exp_value (t : text) : option Z :=
  match t with
  | [] => Some 0
  | c :: r =>
      if is_e c then
        let '(neg, ds) := match r with
                          | s :: r1 => if is_sign s then (Ascii.eqb s c_minus, r1) else (false, r)
                          | [] => (false, r)
                          end in
        match ds with
        | [] => None
        | _ => if Nat.eqb (count_digits ds) (List.length ds)
               then Some (if neg then - digits_val 0 ds else digits_val 0 ds)
               else None
        end
      else None
  end.

(* Python float() on a FLOAT_LIT / numeral text: the finite double it denotes
   as a dyadic (m odd, or (0,0)); None when the text overflows to inf (or is
   not of that shape).  The sign of a zero is not represented. *)
Definition fparse (t : text) : option (Z * Z) :=
  let neg := match t with c :: _ => Ascii.eqb c c_minus | [] => false end in
  let t1 := strip_minus t in
  let n1 := count_digits t1 in
  let ip := firstn n1 t1 in
  let t2 := skipn n1 t1 in
  let '(fp, t3) := match t2 with
                   | c :: r => if Ascii.eqb c c_dot
                               then (firstn (count_digits r) r, skipn (count_digits r) r)
                               else ([], t2)
                   | [] => ([], t2)
                   end in
  match exp_value t3, ip ++ fp with
  | None, _ => None
  | _, [] => None
  | Some ex, _ =>
      match strip_zeros (ip ++ fp) with
      | [] => Some (0, 0)
      | ds =>
          match round_dyadic (digits_val 0 ds) (ex - Z.of_nat (List.length fp))
                             (Z.of_nat (List.length ds)) with
          | Some (m, e) => Some (if neg then - m else m, e)
          | None => None
          end
      end
  end.

(* -- strings: celpy.evaluation.celstr on a cooked literal -- *)

Inductive ures := UOk (t : text) | UErr | UOOF.

Definition ucons (c : ascii) (r : ures) : ures :=
  match r with UOk t => UOk (c :: t) | _ => r end.

Definition uapp (a : text) (r : ures) : ures :=
  match r with UOk t => UOk (a ++ t) | _ => r end.

(* UTF-8 of a code point below 0x800 *)
Definition utf8 (n : N) : text :=
  if (n <? 128)%N then [chr n] else [chr (192 + n / 64); chr (128 + n mod 64)].

Definition is_hex (c : ascii) : bool :=
  let n := code c in
  (((48 <=? n) && (n <=? 57)) || ((97 <=? n) && (n <=? 102)) || ((65 <=? n) && (n <=? 70)))%N.

Definition hexval (c : ascii) : N :=
  let n := code c in
  (if n <=? 57 then n - 48 else if n <=? 70 then n - 55 else n - 87)%N.

Definition octval (c : ascii) : N := (code c - 48)%N.

Definition non_ascii (c : ascii) : bool := (128 <=? code c)%N.

(* CEL_ESCAPES_PAT.finditer over the body, left to right; a raw newline matches
   no alternative and is dropped; an unknown escape is kept verbatim *)
Fixpoint unescape (t : text) : ures :=
  match t with
  | [] => UOk []
  | c :: r =>
      if Ascii.eqb c c_nl then unescape r
      else if Ascii.eqb c c_bslash then
        match r with
        | [] => UOk [c]
        | c2 :: r2 =>
            match esc2 c2 with
            | Some x => ucons x (unescape r2)
            | None =>
                if Ascii.eqb c2 "u"%char || Ascii.eqb c2 "U"%char || non_ascii c2 then UOOF
                else if Ascii.eqb c2 "x"%char then
                  match r2 with
                  | h1 :: h2 :: r4 =>
                      if is_hex h1 && is_hex h2
                      then uapp (utf8 (16 * hexval h1 + hexval h2)) (unescape r4)
                      else ucons c (unescape r)
                  | _ => ucons c (unescape r)
                  end
                else if is_digit c2 then
                  match r2 with
                  | d2 :: d3 :: r4 =>
                      if non_ascii d2 || non_ascii d3 then UOOF
                      else if is_digit d2 && is_digit d3 then
                        if ((octval c2 <? 8) && (octval d2 <? 8) && (octval d3 <? 8))%N
                        then uapp (utf8 (64 * octval c2 + 8 * octval d2 + octval d3)) (unescape r4)
                        else UErr                       (* int(ddd, 8) raises ValueError *)
                      else ucons c (unescape r)
                  | [d2] => if non_ascii d2 then UOOF else ucons c (unescape r)
                  | [] => ucons c (unescape r)
                  end
                else ucons c (unescape r)
            end
        end
      else ucons c (unescape r)
  end.

Definition eval_token (tok : token) : lit_result :=
  match tok with
  | TTrue => ROk (JBool true)
  | TFalse => ROk (JBool false)
  | TNull => ROk JNull
  | TInt t => let z := int_of_text t in if in_int64 z then ROk (JInt z) else REval
  | TFloat t => match fparse t with Some (m, e) => ROk (JFloat m e) | None => ROOF end
  | TStr _ body =>
      match unescape body with
      | UOk s => ROk (JStr (str s))
      | UErr => REval
      | UOOF => ROOF
      end
  | _ => RParse
  end.

(* map keys: only string literals are in the fragment *)
Definition eval_key (a : ast) : res string :=
  match a with
  | ALit (TStr ml body) =>
      match unescape body with
      | UOk s => ROk (str s)
      | UErr => REval
      | UOOF => ROOF
      end
  | _ => ROOF
  end.

Fixpoint eval (a : ast) : lit_result :=
  match a with
  | ALit tok => eval_token tok
  | AList l =>
      match (fix go (l : list ast) : res (list json) :=
               match l with
               | [] => ROk []
               | x :: r => rbind2 (eval x) (go r) cons
               end) l with
      | ROk vs => ROk (JList vs)
      | RParse => RParse | REval => REval | ROOF => ROOF
      end
  | AMap l =>
      match (fix go (l : list (ast * ast)) : res (list (string * json)) :=
               match l with
               | [] => ROk []
               | (k, x) :: r => rbind2 (rbind2 (eval_key k) (eval x) pair) (go r) cons
               end) l with
      | ROk kvs => if nodup_str (map fst kvs) then ROk (JMap kvs) else REval   (* Duplicate key *)
      | RParse => RParse | REval => REval | ROOF => ROOF
      end
  end.

(* compile + evaluate + convert_bools of a text *)
Definition eval_lit (t : text) : lit_result :=
  match lex 0 t with
  | LexOk toks =>
      match parse toks with
      | POk a => eval a
      | PErr => RParse
      | POOF => ROOF
      end
  | LexErr => RParse
  | LexOOF => ROOF
  end.

(* ---------- vocabulary of the property ---------- *)

(* what the documented exception delivers for a string *)
Definition norm_str (s : string) : json :=
  match numeral_kind (txt s) with
  | Some KInt => JInt (int_of_text (txt s))
  | Some KFloat => match fparse (txt s) with Some (m, e) => JFloat m e | None => JStr s end
  | None => JStr s
  end.

Fixpoint norm (v : json) : json :=
  match v with
  | JStr s => norm_str s
  | JList l => JList (map norm l)
  | JMap kvs =>
      JMap ((fix go (l : list (string * json)) : list (string * json) :=
               match l with
               | [] => []
               | (k, x) :: r => (k, norm x) :: go r
               end) kvs)
  | _ => v
  end.

(* a finite binary64 in canonical dyadic form *)
Definition float_ok (m e : Z) : bool :=
  ((m =? 0) && (e =? 0)) ||
  (Z.odd m && (Z.abs m <? 2 ^ 53) && (-1074 <=? e) && (Z.log2 (Z.abs m) + e <? 1024)).

Definition str_in_range (s : string) : bool :=
  match numeral_kind (txt s) with
  | Some KInt => in_int64 (int_of_text (txt s))
  | Some KFloat => match fparse (txt s) with Some _ => true | None => false end
  | None => true
  end.

(* integers are int64, floats finite doubles, numeral strings denote such *)
Fixpoint in_range (v : json) : bool :=
  match v with
  | JInt z => in_int64 z
  | JFloat m e => float_ok m e
  | JStr s => str_in_range s
  | JList l => forallb in_range l
  | JMap kvs =>
      (fix go (l : list (string * json)) : bool :=
         match l with
         | [] => true
         | (_, x) :: r => in_range x && go r
         end) kvs
  | _ => true
  end.

(* no string VALUE starts with the CEL prefix (keys may) *)
Fixpoint no_leading_eq (v : json) : bool :=
  match v with
  | JStr s => negb (starts_with_eq (txt s))
  | JList l => forallb no_leading_eq l
  | JMap kvs =>
      (fix go (l : list (string * json)) : bool :=
         match l with
         | [] => true
         | (_, x) :: r => no_leading_eq x && go r
         end) kvs
  | _ => true
  end.

(* ---------- repr(float) as a table of observed texts ---------- *)

(* The encoder model takes repr(float) as a parameter.  The correspondence
   check instantiates it with the texts CPython produced for the floats of the
   case, and [ftable_ok] decides the two facts the proofs need of them. *)
Definition ftable := list ((Z * Z) * string).

Fixpoint fprint_of (tb : ftable) (m e : Z) : text :=
  match tb with
  | [] => []
  | ((m', e'), s) :: r => if (m =? m') && (e =? e') then txt s else fprint_of r m e
  end.

Definition fentry_ok (en : (Z * Z) * string) : bool :=
  let '((m, e), s) := en in
  match numeral_kind (txt s) with Some KFloat => true | _ => false end &&
  match fparse (txt s) with Some (a, b) => (a =? m) && (b =? e) | None => false end &&
  float_ok m e.

Definition ftable_ok (tb : ftable) : bool := forallb fentry_ok tb.

Definition in_table (tb : ftable) (m e : Z) : bool :=
  existsb (fun en => (m =? fst (fst en)) && (e =? snd (fst en))) tb.
