(* Extract.v — model of
     src/koreo/cel/structure_extractor.py            (the whole file, as repaired in 8199df6)
     src/koreo/workflow/prepare.py                   PARENT_NAME_PATTERN / STEPS_NAME_PATTERN (102-103),
                                                     _load_steps (112-163), _load_step (166-408),
                                                     _prepare_for_each (411-469), _load_logic (472-547),
                                                     _load_logic_switch (550-619), prepare_workflow (31-80)
     src/koreo/workflow/reconcile.py                 the steps_ready gate of reconcile_workflow (42-58)
     src/koreo/resource_function/prepare.py          the watched list of _prepare_overlays (287-420)
     src/koreo/function_test/prepare.py              the watched list of prepare_function_test (36-107)
   Proof-free and executable.  Python exceptions are values ([Raised]). *)
From Koreo Require Export Tree.
Local Open Scope string_scope.
Local Open Scope list_scope.
Local Open Scope nat_scope.

(* ------------------------------------------------------------------ *)
(* results *)

Inductive exn :=
| EAttributeError        (* `.data` / `.children` / `.type` on the wrong kind of object *)
| EIndexError            (* children[0] of an empty list, literal[0] of an empty token *)
| ETypeError             (* ', '.join over a set holding None: raised by _load_step before 2f140bc; no longer produced *)
| EUnsupported           (* structure_extractor.UnsupportedStructure *)
| EOutOfModel.           (* f"{tree}" of a lark Tree: its repr is not modelled; never on grammar trees *)

Inductive res (A : Type) : Type := Done (a : A) | Raised (e : exn).
Arguments Done {A} a.
Arguments Raised {A} e.

Definition bind {A B} (r : res A) (f : A -> res B) : res B :=
  match r with Done a => f a | Raised e => Raised e end.

Definition sapp (a b : string) : string := String.append a b.
Infix "+++" := sapp (at level 60, right associativity).

(* ------------------------------------------------------------------ *)
(* Python string helpers *)

(* s.lstrip(c) / s.rstrip(c) / s.strip(c) for a one-character c *)
Fixpoint lstrip (c : ascii) (s : string) : string :=
  match s with
  | String a r => if Ascii.eqb a c then lstrip c r else s
  | EmptyString => EmptyString
  end.

Fixpoint rstrip (c : ascii) (s : string) : string :=
  match s with
  | EmptyString => EmptyString
  | String a r =>
      let r' := rstrip c r in
      match r' with
      | EmptyString => if Ascii.eqb a c then EmptyString else String a EmptyString
      | _ => String a r'
      end
  end.

Definition strip_char (c : ascii) (s : string) : string := rstrip c (lstrip c s).

(* f"{x}" of a child: a Token prints as its text *)
Definition fmt (c : node) : res string :=
  match c with
  | Tok _ v => Done v
  | N _ _ => Raised EOutOfModel
  end.

(* ------------------------------------------------------------------ *)
(* structure_extractor.py *)

(* _process_primary (127-142) *)
Definition process_primary (t : node) : res string :=
  match t with
  | Tok _ _ => Raised EAttributeError                       (* tree.children *)
  | N _ cs =>
      match cs with
      | [p] =>
          match p with
          | Tok _ _ => Raised EAttributeError               (* primary.data *)
          | N pd pcs =>
              if String.eqb pd "ident" then
                match pcs with
                | [] => Raised EIndexError
                | c :: _ => fmt c
                end
              else if String.eqb pd "literal" then
                match pcs with
                | [] => Raised EIndexError
                | N _ _ :: _ => Raised EAttributeError      (* literal.type *)
                | Tok ty v :: _ =>
                    if String.eqb ty "INT_LIT" then Done v
                    else match v with
                         | EmptyString => Raised EIndexError            (* literal[0] *)
                         | String a _ => Done (strip_char a v)          (* literal.strip(literal[0]) *)
                         end
                end
              else Raised EUnsupported
          end
      | _ => Raised EUnsupported                            (* len(tree.children) != 1 *)
      end
  end.

(* the `while terminal and terminal.children:` descent of _process_member_index (95-101):
   None = the loop ended without finding a primary *)
Fixpoint descend (t : node) : res (option string) :=
  match t with
  | Tok _ v => if String.eqb v "" then Done None            (* falsy token ends the loop *)
               else Raised EAttributeError                  (* token.children *)
  | N d cs =>
      match cs with
      | [] => Done None
      | c :: _ =>
          if String.eqb d "primary"
          then bind (process_primary t) (fun v => Done (Some v))
          else descend c
      end
  end.

Inductive mode := MDot | MDotArg | MIndex.

(* the `terminal` part of the three functions *)
Definition terminal (m : mode) (c1 : node) : res string :=
  match m with
  | MDot | MDotArg => fmt c1                                (* f"{tree.children[1]}" *)
  | MIndex =>
      match c1 with
      | Tok _ _ => Raised EAttributeError                   (* terminal.data *)
      | N td _ =>
          if String.eqb td "primary" then process_primary c1
          else if String.eqb td "expr" then
            bind (descend c1) (fun ov =>
              match ov with
              | None => Raised EUnsupported
              | Some v => if String.eqb v "" then Raised EUnsupported else Done v   (* if not terminal_value *)
              end)
          else Raised EUnsupported
      end
  end.

(* _process_member_dot (28-52), _process_member_dot_arg (55-79),
   _process_member_index (82-124) as one function with a mode *)
Fixpoint proc (m : mode) (t : node) {struct t} : res string :=
  match t with
  | Tok _ _ => Raised EAttributeError                       (* tree.children *)
  | N _ cs =>
      match m, cs with
      | MDotArg, [c0; c1; _] | MDot, [c0; c1] | MIndex, [c0; c1] =>
          bind (terminal m c1) (fun term =>
            match c0 with
            | Tok _ _ => Raised EAttributeError             (* tree.children[0].children *)
            | N _ [] => Raised EIndexError                  (* .children[0] *)
            | N _ (root :: _) =>
                match root with
                | Tok _ _ => Raised EAttributeError         (* root.data *)
                | N rd _ =>
                    bind (if String.eqb rd "member_dot" then proc MDot root
                          else if String.eqb rd "member_index" then proc MIndex root
                          else if String.eqb rd "member_dot_arg" then proc MDotArg root
                          else if String.eqb rd "primary" then process_primary root
                          else if match m with MDotArg => String.eqb rd "ident" | _ => false end
                               then process_primary root
                          else Raised EUnsupported)
                         (fun r => Done (r +++ "." +++ term))
                end
            end)
      | _, _ => Raised EUnsupported                         (* len(tree.children) != 2 / 3 *)
      end
  end.

(* one turn of the loop of extract_argument_structure (8-25) *)
Definition visit (n : node) : res (option string) :=
  match n with
  | Tok _ _ => Done None                                    (* iter_subtrees yields Trees only *)
  | N d _ =>
      let r := if String.eqb d "member_dot" then bind (proc MDot n) (fun s => Done (Some s))
               else if String.eqb d "member_index" then bind (proc MIndex n) (fun s => Done (Some s))
               else Done None in
      match r with
      | Raised EUnsupported => Done None                    (* except UnsupportedStructure: continue *)
      | _ => r
      end
  end.

Fixpoint collect (ns : list node) : res (list string) :=
  match ns with
  | [] => Done []
  | n :: r =>
      bind (visit n) (fun o =>
      bind (collect r) (fun S =>
      Done (match o with Some s => s :: S | None => S end)))
  end.

(* extract_argument_structure: the result is a Python set; here a list read as a set *)
Definition extract (t : node) : res (list string) :=
  match t with
  | Tok _ _ => Raised EAttributeError                       (* compiled.iter_subtrees *)
  | N _ _ => collect (subtrees t)
  end.

(* ------------------------------------------------------------------ *)
(* the two regular expressions, used with re.match (anchored at the start only) *)

Fixpoint strip_prefix (p s : string) : option string :=
  match p with
  | EmptyString => Some s
  | String a p' =>
      match s with
      | String b s' => if Ascii.eqb a b then strip_prefix p' s' else None
      | EmptyString => None
      end
  end.

Definition nl : ascii := "010"%char.

Definition is_cont (a : ascii) : bool := in_range 128 191 a.
Fixpoint drop_cont (s : string) : string :=
  match s with
  | String a r => if is_cont a then drop_cont r else s
  | EmptyString => EmptyString
  end.

(* regex `.`: one character (strings are UTF-8 bytes here: a lead byte takes its
   continuation bytes with it) other than a newline *)
Definition any_char (s : string) : option string :=
  match s with
  | EmptyString => None
  | String a r => if Ascii.eqb a nl then None
                  else Some (if 192 <=? nat_of_ascii a then drop_cont r else r)
  end.

(* greedy [^.[]* *)
Fixpoint take_name (s : string) : string :=
  match s with
  | String a r => if Ascii.eqb a "."%char || Ascii.eqb a "["%char then EmptyString
                  else String a (take_name r)
  | EmptyString => EmptyString
  end.

(* greedy .*  (up to a newline) *)
Fixpoint take_line (s : string) : string :=
  match s with
  | String a r => if Ascii.eqb a nl then EmptyString else String a (take_line r)
  | EmptyString => EmptyString
  end.

(* STEPS_NAME_PATTERN: the text steps, any one character, then the optional group
   name = a greedy non-empty run of characters other than dot and open bracket; the
   rest of the pattern matches anything:
   None = no match; Some None = match whose group `name` did not take part *)
Definition steps_name (key : string) : option (option string) :=
  match strip_prefix "steps" key with
  | None => None
  | Some r =>
      match any_char r with
      | None => None
      | Some r' => let n := take_name r' in
                   Some (if String.eqb n "" then None else Some n)
      end
  end.

(* PARENT_NAME_PATTERN: the text parent, any one character, then the group name = the rest of the line *)
Definition parent_name (key : string) : option string :=
  match strip_prefix "parent" key with
  | None => None
  | Some r => match any_char r with
              | None => None
              | Some r' => Some (take_line r')
              end
  end.

(* needed_steps.update(match.group("name") for ... if match): a set that can hold None *)
Definition needed_steps (keys : list string) : list (option string) :=
  flat_map (fun k => match steps_name k with Some n => [n] | None => [] end) keys.

Definition needed_parent (keys : list string) : list string :=
  flat_map (fun k => match parent_name k with Some n => [n] | None => [] end) keys.

(* ------------------------------------------------------------------ *)
(* workflow/prepare.py *)

(* outcome classes; the class of result.unwrapped_combine is the most severe
   class present (property C03, theorem C03_class) *)
Inductive oclass := COk | CRetry | CPermFail.
Definition oc_max (a b : oclass) : oclass :=
  match a, b with
  | CPermFail, _ | _, CPermFail => CPermFail
  | CRetry, _ | _, CRetry => CRetry
  | COk, COk => COk
  end.
Definition oc_is_ok (c : oclass) : bool := match c with COk => true | _ => false end.
Definition oc_eqb (a b : oclass) : bool :=
  match a, b with COk, COk | CRetry, CRetry | CPermFail, CPermFail => true | _, _ => false end.

(* an expression-bearing field after prepare_expression / prepare_map_expression *)
Inductive field :=
| FNone                     (* absent / falsy spec *)
| FFail                     (* PermFail (parse error, not a mapping ...) *)
| FExpr (ast : node).       (* celpy.Runner; .ast is the lark tree *)

(* what the cache holds for a referenced Logic *)
Inductive cstat := CMissing | CUnhealthy | CHealthy.

Definition resource : Type := string * string.           (* (kind, name) *)
Definition resource_eqb (a b : resource) : bool :=
  String.eqb (fst a) (fst b) && String.eqb (snd a) (snd b).

Record ref_spec := { rf_kind : string; rf_name : string; rf_cache : cstat }.

Definition valid_kind (k : string) : bool :=
  String.eqb k "ValueFunction" || String.eqb k "ResourceFunction" || String.eqb k "Workflow".

(* _load_logic: (resources or None, class of the returned logic) *)
Definition load_logic (r : ref_spec) : option (list resource) * oclass :=
  if String.eqb (rf_kind r) "" then (None, CPermFail)
  else if String.eqb (rf_name r) "" then (None, CPermFail)
  else if negb (valid_kind (rf_kind r)) then (None, CPermFail)
  else (Some [(rf_kind r, rf_name r)],
        match rf_cache r with CMissing | CUnhealthy => CRetry | CHealthy => COk end).

Record case_spec := { cs_case : string; cs_default : bool; cs_ref : ref_spec }.
Record switch_spec := { sw_on : field; sw_cases : list case_spec }.

Fixpoint aset {A} (k : string) (v : A) (kvs : list (string * A)) : list (string * A) :=
  match kvs with
  | [] => [(k, v)]
  | (k', v') :: r => if String.eqb k k' then (k', v) :: r else (k', v') :: aset k v r
  end.

(* the `for idx, case_spec in enumerate(cases_spec)` loop of _load_logic_switch:
   state = (default_logic, logic_map, resources); None = the early
   "Only one case may be default" return *)
Fixpoint switch_loop (cases : list case_spec) (dflt : option oclass)
         (lmap : list (string * oclass)) (rs : list resource)
  : option (option oclass * list (string * oclass) * list resource) :=
  match cases with
  | [] => Some (dflt, lmap, rs)
  | c :: rest =>
      match (if cs_default c then dflt else None) with
      | Some _ => None
      | None =>
          let '(lr, lc) := load_logic (cs_ref c) in
          switch_loop rest
                      (if cs_default c then Some lc else dflt)
                      (aset (cs_case c) lc lmap)
                      (match lr with Some l => rs ++ l | None => rs end)
      end
  end.

(* _load_logic_switch: (resources or None, class, keys of switchOn) *)
Definition load_logic_switch (sw : switch_spec) : res (option (list resource) * oclass * list string) :=
  match sw_on sw with
  | FNone | FFail => Done (None, CPermFail, [])
  | FExpr ast =>
      bind (extract ast) (fun keys =>
      match sw_cases sw with
      | [] => Done (None, CPermFail, keys)
      | cases =>
          match switch_loop cases None [] [] with
          | None => Done (None, CPermFail, keys)
          | Some (dflt, lmap, rs) =>
              let ready := fold_left oc_max (map snd lmap) COk in
              if negb (oc_is_ok ready) then Done (Some rs, ready, keys)
              else match dflt with
                   | Some c => Done (Some rs, c, keys)       (* an un-ok default that was shadowed in logic_map *)
                   | None => Done (Some rs, COk, keys)
                   end
          end
      end)
  end.

(* forEach after _prepare_for_each *)
Inductive fe_field :=
| FENone                                  (* no forEach *)
| FEBad                                   (* itemIn empty or unparsable: ErrorStep *)
| FEExpr (ast : node) (has_key : bool).   (* itemIn compiled; inputKey present? *)

Record step_spec := {
  st_label : string;
  st_ref : option ref_spec;               (* truthy `ref` *)
  st_switch : option switch_spec;         (* truthy `refSwitch` *)
  st_skip_if : field;
  st_for_each : fe_field;
  st_inputs : field;
  st_state : field }.

Inductive step_out :=
| SErr (label : string) (c : oclass)                      (* structure.ErrorStep *)
| SStep (label : string) (deps : list string).            (* structure.Step, its dynamic_input_keys *)

Definition opt_mem (x : option string) (l : list string) : bool :=
  match x with Some s => existsb (String.eqb s) l | None => false end.

Fixpoint somes (l : list (option string)) : list string :=
  match l with
  | [] => []
  | Some s :: r => s :: somes r
  | None :: r => somes r
  end.

(* keys of one field: Done None = the step returns an ErrorStep here *)
Definition field_keys (f : field) : res (option (list string)) :=
  match f with
  | FNone => Done (Some [])
  | FFail => Done None
  | FExpr ast => bind (extract ast) (fun k => Done (Some k))
  end.

Definition fe_keys (f : fe_field) : res (option (list string)) :=
  match f with
  | FENone => Done (Some [])
  | FEBad => Done None
  | FEExpr ast has_key => bind (extract ast) (fun k => Done (if has_key then Some k else None))
  end.

Definition field_trees (f : field) : list node :=
  match f with FExpr ast => [ast] | _ => [] end.

Definition fe_trees (f : fe_field) : list node :=
  match f with FEExpr ast _ => [ast] | _ => [] end.

(* the compiled expressions of a step: refSwitch.switchOn, skipIf, forEach.itemIn, inputs, state *)
Definition step_trees (st : step_spec) : list node :=
  (match st_switch st with Some sw => field_trees (sw_on sw) | None => [] end) ++
  field_trees (st_skip_if st) ++ fe_trees (st_for_each st) ++
  field_trees (st_inputs st) ++ field_trees (st_state st).

(* the Logic part of _load_step (181-217): resources or None, class of the logic,
   "logic is None", keys of switchOn (only when the switch loaded) *)
Definition load_step_logic (st : step_spec)
  : res (option (list resource) * oclass * bool * list string) :=
  match st_ref st, st_switch st with
  | Some r, _ => let '(rs, c) := load_logic r in Done (rs, c, false, [])
  | None, Some sw =>
      bind (load_logic_switch sw) (fun '(rs, c, keys) =>
        Done (rs, c, false, if oc_is_ok c then keys else []))
  | None, None => Done (None, COk, true, [])
  end.

(* skipIf, forEach, inputs, state in this order (255-378): (all prepared?, keys so far) *)
Definition load_step_fields (st : step_spec) (k0 : list string) : res (bool * list string) :=
  bind (field_keys (st_skip_if st)) (fun o1 =>
  match o1 with
  | None => Done (false, k0)
  | Some k1 =>
  bind (fe_keys (st_for_each st)) (fun o2 =>
  match o2 with
  | None => Done (false, k0 ++ k1)
  | Some k2 =>
  bind (field_keys (st_inputs st)) (fun o3 =>
  match o3 with
  | None => Done (false, k0 ++ k1 ++ k2)
  | Some k3 =>
  bind (field_keys (st_state st)) (fun o4 =>
  match o4 with
  | None => Done (false, k0 ++ k1 ++ k2 ++ k3)
  | Some k4 => Done (true, k0 ++ k1 ++ k2 ++ k3 ++ k4)
  end) end) end) end).

(* the order check (380-393; since 2f140bc the message formats each label, so a None in
   the set no longer raises): a needed name that is not an earlier label - None included -
   makes the step an ErrorStep *)
Definition order_check (label : string) (known keys : list string) : step_out :=
  let needed := needed_steps keys in
  let out_of_order := filter (fun n => negb (opt_mem n known)) needed in
  match out_of_order with
  | [] => SStep label (somes needed)
  | _ => SErr label CPermFail
  end.

(* _load_step: (resources or None, the step, needed parent properties) *)
Definition load_step (st : step_spec) (known : list string)
  : res (option (list resource) * step_out * list string) :=
  let label := st_label st in
  match st_ref st, st_switch st with
  | Some _, Some _ => Done (None, SErr label CPermFail, [])
  | _, _ =>
      bind (load_step_logic st) (fun '(rs, lc, nologic, k0) =>
      if String.eqb label "<missing label>" then Done (rs, SErr "missing" CPermFail, needed_parent k0)
      else if negb (oc_is_ok lc) then Done (rs, SErr label lc, needed_parent k0)
      else if nologic then Done (rs, SErr label CPermFail, needed_parent k0)
      else
      bind (load_step_fields st k0) (fun '(ok, keys) =>
      if negb ok then Done (rs, SErr label CPermFail, needed_parent keys)
      else Done (rs, order_check label known keys, needed_parent keys)))
  end.

(* the loop of _load_steps *)
Fixpoint steps_loop (steps : list step_spec) (known : list string)
  : res (list resource * list step_out * list string) :=
  match steps with
  | [] => Done ([], [], [])
  | st :: rest =>
      if existsb (String.eqb (st_label st)) known then
        bind (steps_loop rest known) (fun '(rs, outs, pp) =>
          Done (rs, SErr (st_label st) CPermFail :: outs, pp))
      else
        bind (load_step st known) (fun '(r1, o1, p1) =>
        bind (steps_loop rest (st_label st :: known)) (fun '(rs, outs, pp) =>
          Done ((match r1 with Some l => l | None => [] end) ++ rs, o1 :: outs, p1 ++ pp)))
  end.

Definition err_classes (outs : list step_out) : list oclass :=
  flat_map (fun o => match o with SErr _ c => [c] | SStep _ _ => [] end) outs.

Record prepared_workflow := {
  pw_ready : oclass;                      (* class of Workflow.steps_ready *)
  pw_steps : list step_out;
  pw_parent : list string;                (* Workflow.dynamic_input_keys *)
  pw_watched : list resource }.           (* second component of prepare_workflow's result *)

(* prepare_workflow after schema validation *)
Definition prepare_workflow (steps : list step_spec) : res prepared_workflow :=
  match steps with
  | [] => Done {| pw_ready := CPermFail; pw_steps := []; pw_parent := []; pw_watched := [] |}
  | _ =>
      bind (steps_loop steps []) (fun '(rs, outs, pp) =>
        Done {| pw_ready := fold_left oc_max (err_classes outs) COk;
                pw_steps := outs; pw_parent := pp; pw_watched := rs |})
  end.

Definition out_label (o : step_out) : string :=
  match o with SErr l _ | SStep l _ => l end.

(* reconcile_workflow: the labels for which a step task is created *)
Definition started_steps (w : prepared_workflow) : list string :=
  if oc_is_ok (pw_ready w) then map out_label (pw_steps w) else [].

(* ------------------------------------------------------------------ *)
(* resource_function/prepare.py: which ValueFunctions _prepare_overlays reports *)

Inductive overlay_body :=
| OInline                                     (* {"overlay": ...} (+ anything: rejected or prepared, never watched) *)
| ORef (name : string)                        (* {"overlayRef": {"name": name}, ...} and no "overlay" key *)
| OOther.                                     (* anything else *)

Record overlay_spec := { ov_skip_if : field; ov_body : overlay_body }.

Definition overlay_watched (ovs : list overlay_spec) : list string :=
  flat_map (fun o =>
    match ov_skip_if o with
    | FFail => []                             (* overlays.append(err); continue *)
    | _ => match ov_body o with ORef name => [name] | _ => [] end
    end) ovs.

(* prepare_resource_function: None = a PermFail is returned (no watch list at all) *)
Definition rf_watched (rest_ok : bool) (ovs : list overlay_spec) : option (list string) :=
  if rest_ok then Some (overlay_watched ovs) else None.

(* function_test/prepare.py: functionRef -> watched function *)
Definition ft_function (kind name : string) : option resource :=
  if String.eqb kind "" then None
  else if String.eqb name "" then None
  else if String.eqb kind "ValueFunction" || String.eqb kind "ResourceFunction" then Some (kind, name)
  else None.

(* prepare_function_test: None = PermFail; the template resources appended after
   the function are not modelled (they come from evaluating expressions) *)
Definition ft_watched_head (kind name : string) (cases_ok inputs_ok : bool) : option resource :=
  match ft_function kind name with
  | None => None
  | Some r => if cases_ok && inputs_ok then Some r else None
  end.
