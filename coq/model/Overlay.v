(* Overlay.v — model for property C12 (targets and returns are ordered deep
   merges).  Proof-free and executable; proofs are in proofs/Overlay_proofs.v.

   Code mirrored (koreo-core, /repo/src/koreo):
     cel/prepare.py      prepare_overlay_expression (:54-73), _overlay_indexer (:76-90)
     cel/evaluation.py   evaluate_overlay (:73-110), _overlay_applier (:113-136)
     cel/functions.py    _overlay / _deep_overlay (:229-259)
     value_function/reconcile.py          reconcile_value_function (:11-62)
     resource_function/reconcile/__init__.py
                         _construct_resource_template (:433-508),
                         _materialize_from_overlays (:511-603),
                         the evaluate_overlay + forced-overlay head of
                         _create_api_resource (:606-660) and the
                         `if crud_config.overlays:` dispatch (:275-291)

   Expressions are NOT CEL: leaves are the mini language of DESIGN §4
   (a constant or a path into a named root of the activation).  The harness
   realises every leaf as a real Koreo expression ("=inputs.a.b") so that the
   real encoder and celpy are in the loop; what celpy does with such a path is
   [eval_expr] below and is validated by the correspondence check. *)
From Koreo Require Export Json.
Local Open Scope list_scope.
Local Open Scope nat_scope.

(* ---------- results ---------- *)

Inductive exn := IndexError | AttributeError.

(* koreo outcome of an evaluation step: a value, PermFail, Retry, or a Python
   exception leaving the function *)
Inductive res (A : Type) : Type :=
| Done (a : A)
| PermFail
| Retry
| Raised (e : exn).
Arguments Done {A} a.
Arguments PermFail {A}.
Arguments Retry {A}.
Arguments Raised {A} e.

Definition rbind {A B} (r : res A) (f : A -> res B) : res B :=
  match r with
  | Done a => f a
  | PermFail => PermFail
  | Retry => Retry
  | Raised e => Raised e
  end.

Definition rmap {A B} (f : A -> B) (r : res A) : res B := rbind r (fun a => Done (f a)).

Definition mapM {A B} (f : A -> option B) : list A -> option (list B) :=
  fix go (l : list A) : option (list B) :=
    match l with
    | [] => Some []
    | x :: r =>
        match f x with
        | None => None
        | Some y => match go r with None => None | Some ys => Some (y :: ys) end
        end
    end.

Notation kvs := (list (string * json)).

Definition as_map (j : json) : kvs := match j with JMap m => m | _ => [] end.

(* dict.get(k): absent and null are not distinguished by any caller here *)
Definition get_or_null (k : string) (m : kvs) : json :=
  match lookup k m with Some v => v | None => JNull end.

(* ---------- documents with expression leaves ---------- *)

Inductive expr :=
| EConst (j : json)                          (* a static value *)
| EPath (root : string) (path : list string). (* "=root.p1.p2…" *)

Inductive doc :=
| DLeaf (e : expr)
| DList (l : list doc)
| DMap (m : list (string * doc)).

Notation dkvs := (list (string * doc)).

(* the activation handed to celpy: name -> value *)
Definition env := kvs.

Fixpoint walk (j : json) (path : list string) : option json :=
  match path with
  | [] => Some j
  | k :: r =>
      match j with
      | JMap m => match lookup k m with Some v => walk v r | None => None end
      | _ => None
      end
  end.

(* None = celpy fails to evaluate (unbound name, missing member, member of a
   non-map): koreo turns every such failure into PermFail *)
Definition eval_expr (en : env) (e : expr) : option json :=
  match e with
  | EConst j => Some j
  | EPath root p => match lookup root en with Some v => walk v p | None => None end
  end.

Fixpoint eval_doc (en : env) (d : doc) : option json :=
  match d with
  | DLeaf e => eval_expr en e
  | DList l => option_map JList (mapM (eval_doc en) l)
  | DMap m =>
      option_map JMap
        (mapM (fun kd : string * doc =>
                 let (k, v) := kd in option_map (pair k) (eval_doc en v)) m)
  end.

(* ---------- cel/prepare.py: the indexer ---------- *)

(* Index = dict[str, Index] | int *)
Inductive index :=
| IPos (n : nat)
| INode (m : list (string * index)).

(* _overlay_indexer on one VALUE of the spec, with the running offset [b]
   (= len(values) + base at the time the key is visited):
     case dict() if value  -> recurse, positions continue from b
     case _                -> the value is one leaf at position b
   Only a NON-EMPTY map is descended into; lists, scalars, expressions and
   the empty map are leaves.  The accumulating loop
     index[key], kv = indexer(value, len(values)+base); values.extend(kv)
   is written right-recursively: the first key's leaves, then the remaining
   keys with the offset advanced by their number. *)
Fixpoint indexer (d : doc) (b : nat) : index * list doc :=
  match d with
  | DMap ((_ :: _) as m) =>
      let fix go (m : dkvs) (b : nat) : list (string * index) * list doc :=
        match m with
        | [] => ([], [])
        | (k, v) :: r =>
            let (i, vs) := indexer v b in
            let (ir, vr) := go r (b + List.length vs) in
            ((k, i) :: ir, vs ++ vr)
        end in
      let (im, vs) := go m b in (INode im, vs)
  | _ => (IPos b, [d])
  end.

(* the same loop, usable on a top-level spec (which may be empty) *)
Fixpoint indexer_kvs (m : dkvs) (b : nat) : list (string * index) * list doc :=
  match m with
  | [] => ([], [])
  | (k, v) :: r =>
      let (i, vs) := indexer v b in
      let (ir, vr) := indexer_kvs r (b + List.length vs) in
      ((k, i) :: ir, vs ++ vr)
  end.

(* class Overlay(NamedTuple): value_index, values (one CEL list expression) *)
Record overlay := { ov_index : index; ov_values : list doc }.

(* prepare_overlay_expression on a spec that is a mapping:
   `if not spec: return None`; otherwise index from base 0.  (A non-mapping
   spec is a PermFail at prepare time and never reaches evaluation.) *)
Definition prepare_overlay (spec : dkvs) : option overlay :=
  match spec with
  | [] => None
  | _ => let (im, vs) := indexer_kvs spec 0 in
         Some {| ov_index := INode im; ov_values := vs |}
  end.

(* ---------- cel/evaluation.py: the applier ---------- *)

(* _overlay_applier.  [apply_index (INode m) (JMap base) values] is
   `_overlay_applier(base, index=m, values)`:
     overlaid = deepcopy(base)
     for key, vi in index.items():
        int  -> overlaid[key] = values[vi]                  (IndexError if out of range)
        dict -> overlaid[key] = applier(base.get(key) if it is a dict else {}, vi, values)
   The two caller-side decisions (`values[vi]`, "sub-base is base.get(key) if a
   dict else an empty map") are made in the callee here: [IPos] returns the
   value, [INode] starts from [as_map] of whatever the caller found under the
   key.  An int index at the top is `int.items()` = AttributeError in Python;
   [evaluate_overlay] refuses it before (PermFail), see below. *)
Fixpoint apply_index (i : index) (basev : json) (values : list json) : res json :=
  match i with
  | IPos n =>
      match nth_error values n with
      | Some v => Done v
      | None => Raised IndexError
      end
  | INode m =>
      let base := as_map basev in
      rmap JMap
        (fold_left
           (fun (acc : res kvs) (ki : string * index) =>
              let (k, i') := ki in
              rbind acc (fun a =>
              rbind (apply_index i' (get_or_null k base) values) (fun v =>
              Done (set_key k v a))))
           m (Done base))
  end.

(* evaluate_overlay(overlay, inputs, base, location) *)
Definition evaluate_overlay (en : env) (ov : overlay) (base : kvs) : res json :=
  match ov_index ov with
  | IPos _ => PermFail                    (* "Bad overlay structure … expected mapping" *)
  | INode _ =>
      let en' := set_key "resource" (JMap base) en in     (* inputs | {"resource": base} *)
      match mapM (eval_doc en') (ov_values ov) with
      | None => PermFail                   (* CELEvalError raised or embedded *)
      | Some vals => apply_index (ov_index ov) (JMap base) vals
      end
  end.

(* ---------- cel/functions.py: _deep_overlay ---------- *)

(* resource = deepcopy(resource)
   for field, ov in overlay.items():
       if field in resource and both resource[field] and ov are MapType:
           resource[field] = _deep_overlay(resource[field], ov); continue
       resource[field] = ov
   The recursion is on the overlay VALUE; it is only ever entered with a map
   (the [JMap] test precedes the call), so the last branch is unreachable. *)
Fixpoint deep_overlay_v (ov : json) (resource : kvs) : kvs :=
  match ov with
  | JMap om =>
      fold_left
        (fun (acc : kvs) (fv : string * json) =>
           let (f, v) := fv in
           match lookup f acc, v with
           | Some (JMap rm), JMap _ => set_key f (JMap (deep_overlay_v v rm)) acc
           | _, _ => set_key f v acc
           end)
        om resource
  | _ => resource
  end.

(* functions._overlay(resource=…, overlay=…) on two maps *)
Definition deep_overlay (overlay_m resource : kvs) : kvs := deep_overlay_v (JMap overlay_m) resource.

(* ====================================================================== *)
(* Reference semantics (what the property text says)                       *)
(* ====================================================================== *)

(* An overlay document after its leaves have been evaluated: maps that were
   written structurally in the overlay are nodes; everything else — scalar,
   list, the empty map, or a computed value even if it is a map — is a leaf. *)
Inductive otree :=
| OLeaf (v : json)
| ONode (m : list (string * otree)).

Fixpoint ev_tree (ev : doc -> option json) (d : doc) : option otree :=
  match d with
  | DMap ((_ :: _) as m) =>
      option_map ONode
        (mapM (fun kd : string * doc =>
                 let (k, v) := kd in option_map (pair k) (ev_tree ev v)) m)
  | _ => option_map OLeaf (ev d)
  end.

(* Key-by-key merge of a map [b] with per-key update functions [fs]:
   the keys of [b] keep their place, a key that [fs] mentions gets [f old],
   keys only in [fs] are appended in [fs]'s order and get [f null]. *)
Definition merge_keys (b : kvs) (fs : list (string * (json -> json))) : kvs :=
  map (fun kv : string * json =>
         let (k, bv) := kv in
         (k, match lookup k fs with Some f => f bv | None => bv end)) b
  ++ map (fun kf : string * (json -> json) => let (k, f) := kf in (k, f JNull))
         (filter (fun kf : string * (json -> json) => negb (mem_str (fst kf) (keys b))) fs).

(* deep merge of an evaluated overlay document over a base value:
   a leaf replaces; a node merges key by key into the base if that is a map,
   and into the empty map otherwise *)
Fixpoint merge_doc (t : otree) (basev : json) : json :=
  match t with
  | OLeaf v => v
  | ONode m =>
      JMap (merge_keys (as_map basev)
              (map (fun kt : string * otree => let (k, t') := kt in (k, merge_doc t')) m))
  end.

(* deep merge of two VALUES (overlay() / the forced overlay): two maps merge
   key by key, anything else is replaced by the overlay value *)
Fixpoint merge_val (o : json) (basev : json) : json :=
  match o with
  | JMap om =>
      match basev with
      | JMap b =>
          JMap (merge_keys b
                  (map (fun kv : string * json => let (k, v) := kv in (k, merge_val v)) om))
      | _ => o
      end
  | _ => o
  end.

(* ====================================================================== *)
(* ValueFunction                                                           *)
(* ====================================================================== *)

(* spec (no preconditions: C13's subject); [] = key absent or empty *)
Record svf := { sv_locals : dkvs; sv_return : dkvs }.

(* prepared *)
Record pvf := { pv_locals : option doc; pv_return : option overlay }.

Definition prepare_vf (s : svf) : pvf :=
  {| pv_locals := match sv_locals s with [] => None | m => Some (DMap m) end;
     pv_return := prepare_overlay (sv_return s) |}.

Definition bind_inputs (inputs : option json) : env :=
  match inputs with Some i => [("inputs", i)] | None => [] end.

(* the activation reconcile_value_function builds before `return` is evaluated *)
Definition vf_env (locals : option doc) (inputs : option json) (value_base : option kvs)
  : option env :=
  let full := bind_inputs inputs in
  (* if value_base: full_inputs |= {"resource": value_base}   — truthy = non-empty *)
  let full := match value_base with
              | Some ((_ :: _) as b) => set_key "resource" (JMap b) full
              | _ => full
              end in
  match locals with
  | None => Some (set_key "locals" (JMap []) full)
  | Some d =>
      match eval_doc full d with
      | Some (JMap lv) => Some (set_key "locals" (JMap lv) full)
      | _ => None
      end
  end.

(* reconcile_value_function(location, function, inputs, value_base) *)
Definition reconcile_vf (f : pvf) (inputs : option json) (value_base : option kvs) : res json :=
  match pv_return f with
  | None => Done JNull
  | Some ov =>
      match vf_env (pv_locals f) inputs value_base with
      | None => PermFail
      | Some full =>
          evaluate_overlay full ov (match value_base with Some b => b | None => [] end)
      end
  end.

(* ====================================================================== *)
(* ResourceFunction: template -> overlays -> forced overlay                *)
(* ====================================================================== *)

(* spec level *)
Inductive stemplate :=
| STNone                         (* resource_template is None *)
| STInline (m : dkvs)            (* spec.resource ([] = empty -> template None) *)
| STRef (name : expr).           (* spec.resourceTemplateRef.name *)

Inductive sstep :=
| SInline (spec : dkvs) (skip : option expr)
| SFn (f : svf) (skip : option expr) (inputs : dkvs).

(* prepared level *)
Inductive pstep :=
| PInline (ov : overlay) (skip : option expr)
| PFn (f : pvf) (skip : option expr) (inputs : option doc).

Definition prepare_step (s : sstep) : option pstep :=
  match s with
  | SInline spec skip =>
      match prepare_overlay spec with
      | Some ov => Some (PInline ov skip)
      | None => None                       (* "Empty inline overlay": prepare fails *)
      end
  | SFn f skip inp =>
      Some (PFn (prepare_vf f) skip (match inp with [] => None | m => Some (DMap m) end))
  end.

Definition pstep_skip (s : pstep) : option expr :=
  match s with PInline _ k => k | PFn _ k _ => k end.
Definition sstep_skip (s : sstep) : option expr :=
  match s with SInline _ k => k | SFn _ k _ => k end.

(* skipIf: absent -> do not skip; evaluation failure or a non-bool -> PermFail *)
Definition skip_decision (en : env) (skip : option expr) : res bool :=
  match skip with
  | None => Done false
  | Some e =>
      match eval_expr en e with
      | Some (JBool b) => Done b
      | _ => PermFail
      end
  end.

Definition to_map (j : json) : res kvs :=
  match j with JMap m => Done m | _ => PermFail end.   (* "Expected mapping, but received …" *)

(* the templates cache: name -> template body of a ready ResourceTemplate *)
Definition tcache := list (string * kvs).

(* what the template evaluates to, before the forced overlay *)
Definition template_value (en : env) (tc : tcache) (t : stemplate) : res kvs :=
  match t with
  | STNone => Done []
  | STInline [] => Done []
  | STInline m =>
      match eval_doc en (DMap m) with
      | Some (JMap v) => Done v
      | _ => PermFail
      end
  | STRef name =>
      match eval_expr en name with
      | Some (JStr s) =>
          match lookup s tc with
          | Some body => Done body
          | None => Retry                       (* not found / not ready *)
          end
      | _ => PermFail
      end
  end.

(* _construct_resource_template: `case None: return forced_overlay`, otherwise
   functions._overlay(materialized, forced_overlay) *)
Definition construct_template (en : env) (tc : tcache) (t : stemplate) (forced : kvs) : res kvs :=
  match t with
  | STNone => Done forced
  | _ => rmap (deep_overlay forced) (template_value en tc t)
  end.

Definition apply_step (en : env) (cur : kvs) (s : pstep) : res kvs :=
  match s with
  | PInline ov _ => rbind (evaluate_overlay en ov cur) to_map
  | PFn f _ inp =>
      match inp with
      | None => rbind (reconcile_vf f None (Some cur)) to_map
      | Some d =>
          match eval_doc en d with
          | Some i => rbind (reconcile_vf f (Some i) (Some cur)) to_map
          | None => PermFail
          end
      end
  end.

(* the for loop of _materialize_from_overlays, early returns included *)
Fixpoint materialize_steps (en : env) (steps : list pstep) (cur : kvs) : res kvs :=
  match steps with
  | [] => Done cur
  | s :: r =>
      rbind (skip_decision en (pstep_skip s)) (fun skip =>
      if skip then materialize_steps en r cur
      else rbind (apply_step en cur s) (fun cur' => materialize_steps en r cur'))
  end.

Definition materialize (en : env) (steps : list pstep) (resource forced : kvs) : res kvs :=
  rmap (deep_overlay forced) (materialize_steps en steps resource).

(* reconcile_krm_resource :263-291: template, then `if crud_config.overlays:` *)
Definition target (en : env) (tc : tcache) (t : stemplate) (steps : list pstep) (forced : kvs)
  : res kvs :=
  rbind (construct_template en tc t forced) (fun base =>
  match steps with
  | [] => Done base
  | _ => materialize en steps base forced
  end).

(* head of _create_api_resource: create.overlay over the target, forced overlay again *)
Definition create_view (en : env) (create_ov : option overlay) (view forced : kvs) : res kvs :=
  rmap (deep_overlay forced)
    (match create_ov with
     | None => Done view
     | Some ov => rbind (evaluate_overlay en ov view) to_map
     end).

(* ---------- reference for the pipeline ---------- *)

(* one overlay document deep-merged over [cur]; its leaves see [cur] as `resource` *)
Definition ref_overlay (en : env) (spec : dkvs) (cur : json) : res json :=
  match ev_tree (eval_doc (set_key "resource" cur en)) (DMap spec) with
  | Some t => Done (merge_doc t cur)
  | None => PermFail
  end.

Definition ref_vf (f : svf) (inputs : option json) (cur : kvs) : res json :=
  match sv_return f with
  | [] => Done JNull
  | ret =>
      match vf_env (pv_locals (prepare_vf f)) inputs (Some cur) with
      | Some full => ref_overlay full ret (JMap cur)
      | None => PermFail
      end
  end.

(* fold step: once an overlay fails the failure is kept; a skipped overlay
   leaves the accumulated target untouched *)
Definition ref_step (en : env) (acc : res kvs) (s : sstep) : res kvs :=
  rbind acc (fun cur =>
  rbind (skip_decision en (sstep_skip s)) (fun skip =>
  if skip then Done cur
  else
    match s with
    | SInline spec _ => rbind (ref_overlay en spec (JMap cur)) to_map
    | SFn f _ inp =>
        match inp with
        | [] => rbind (ref_vf f None cur) to_map
        | m =>
            match eval_doc en (DMap m) with
            | Some i => rbind (ref_vf f (Some i) cur) to_map
            | None => PermFail
            end
        end
    end)).

(* ---------- well-formedness (Python dicts have unique keys) ---------- *)

Definition wf_expr (e : expr) : bool :=
  match e with EConst j => wf j | EPath _ _ => true end.

Fixpoint wf_doc (d : doc) : bool :=
  match d with
  | DLeaf e => wf_expr e
  | DList l => forallb wf_doc l
  | DMap m =>
      nodup_str (map fst m) &&
      forallb (fun kd : string * doc => wf_doc (snd kd)) m
  end.

Definition wf_env (en : env) : bool := wf (JMap en).

(* DFS list of the positions stored in an index *)
Fixpoint positions (i : index) : list nat :=
  match i with
  | IPos n => [n]
  | INode m => flat_map (fun ki : string * index => positions (snd ki)) m
  end.
