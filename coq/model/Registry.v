(* Registry.v — model of src/koreo/registry.py (register, subscribe,
   subscribe_only_to, unsubscribe, notify_subscribers, get_subscribers,
   get_subscriptions, kill_resource, deregister, _kill_resource,
   _check_for_cycles) and of the asyncio.LifoQueue operations it uses
   (put_nowait / get_nowait / task_done / shutdown / empty / full, Python 3.13),
   unbounded or bounded.
   Proof-free and executable; proofs are in proofs/Registry_proofs.v.

   Resources are natural numbers.

   The two module-level defaultdicts
       _RESOURCE_SUBSCRIBERS : resource   -> set of subscribers
       _SUBSCRIBER_RESOURCES : subscriber -> set of resources
   are modelled as sets of (key, member) pairs ([dset]).  A key that is present
   with an empty set is the same [dset] as an absent key.  This loses nothing
   observable: the only place that distinguishes the two is
   `if check_resource not in _SUBSCRIBER_RESOURCES: continue` in
   _check_for_cycles, and skipping a key or adding its empty set to the next
   level is the same thing.  (The harness exercises get_subscribers /
   get_subscriptions, which insert keys, for that reason.)

   _SUBSCRIPTION_QUEUES maps a resource to a queue *object*.  Objects outlive
   their dict entry (a waiter keeps its reference after deregister), so the
   model has a heap: [heap] lists every queue ever created (index = creation
   order) and [queues] maps a resource to the index of its current queue. *)
From Coq Require Export List Arith Bool.
Export ListNotations.
Local Open Scope nat_scope.
Local Open Scope list_scope.

(* ---------------------------------------------------------------- sets *)

Definition mem (x : nat) (l : list nat) : bool := existsb (Nat.eqb x) l.

(* set(xs): first occurrences, order kept (order is never observable) *)
Fixpoint dedup (l : list nat) : list nat :=
  match l with
  | [] => []
  | x :: r => if mem x r then dedup r else x :: dedup r
  end.

Definition edge := (nat * nat)%type.
Definition edge_eqb (a b : edge) : bool :=
  Nat.eqb (fst a) (fst b) && Nat.eqb (snd a) (snd b).

(* dict of sets: (key, member) pairs *)
Definition dset := list edge.

Definition emem (e : edge) (d : dset) : bool := existsb (edge_eqb e) d.

(* d[k]  (defaultdict: absent = empty) *)
Definition dget (k : nat) (d : dset) : list nat :=
  map snd (filter (fun e => Nat.eqb (fst e) k) d).

(* d[k].add(v) *)
Definition dadd (k v : nat) (d : dset) : dset :=
  if emem (k, v) d then d else (k, v) :: d.

(* d[k].remove(v) : None = KeyError *)
Definition dremove (k v : nat) (d : dset) : option dset :=
  if emem (k, v) d then Some (filter (fun e => negb (edge_eqb (k, v) e)) d) else None.

(* d[k] = set(vs) *)
Definition dassign (k : nat) (vs : list nat) (d : dset) : dset :=
  map (fun v => (k, v)) (dedup vs) ++ filter (fun e => negb (Nat.eqb (fst e) k)) d.

(* ------------------------------------------------------- asyncio.LifoQueue *)

Inductive event := EKill | ERes (notifier time : nat).

(* [items]: head = top of the stack (the element get_nowait returns next);
   Python's list is the reverse.  [unfinished] is Queue._unfinished_tasks.
   [cap] is Queue.maxsize: 0 = unbounded (the default queue register creates);
   n > 0 = a bounded queue the caller passed to register(resource, queue=...). *)
Record queue := Q { items : list event; shut : bool; unfinished : nat; cap : nat }.

Definition new_queue (c : nat) : queue := Q [] false 0 c.

(* Queue.full(): maxsize > 0 and qsize() >= maxsize *)
Definition full (q : queue) : bool :=
  match cap q with
  | 0 => false
  | S _ => Nat.leb (cap q) (List.length (items q))
  end.

(* what a successful put_nowait does *)
Definition push (e : event) (q : queue) : queue :=
  Q (e :: items q) (shut q) (S (unfinished q)) (cap q).

(* try: q.put_nowait(e) except (QueueFull, QueueShutDown): pass
   put_nowait raises QueueShutDown when shut down, else QueueFull when full *)
Definition put_quiet (e : event) (q : queue) : queue :=
  if shut q then q else if full q then q else push e q.

(* _kill_resource's effect on the queue object:
     try: put_nowait(Kill())
     except QueueShutDown: return queue      (already dead: nothing more)
     except QueueFull: pass                  (no room for the marker ...)
     queue.shutdown()                        (... but shut down all the same) *)
Definition kill_q (q : queue) : queue :=
  if shut q then q
  else if full q then Q (items q) true (unfinished q) (cap q)
  else Q (EKill :: items q) true (S (unfinished q)) (cap q).

(* deregister's drain loop
     while not queue.empty(): queue.get_nowait(); queue.task_done()
   task_done raises ValueError when _unfinished_tasks is already 0 (after the
   item has been popped).  Result: remaining items, remaining count, and
   whether the loop ended normally. *)
Fixpoint drain (its : list event) (unf : nat) : list event * nat * bool :=
  match its with
  | [] => ([], unf, true)
  | _ :: r => match unf with
              | 0 => (r, 0, false)
              | S u => drain r u
              end
  end.

Fixpoint upd (i : nat) (f : queue -> queue) (h : list queue) : list queue :=
  match h with
  | [] => []
  | x :: r => match i with
              | 0 => f x :: r
              | S j => x :: upd j f r
              end
  end.

Fixpoint lookup (k : nat) (m : list (nat * nat)) : option nat :=
  match m with
  | [] => None
  | (k', v) :: r => if Nat.eqb k k' then Some v else lookup k r
  end.

Definition remove_key (k : nat) (m : list (nat * nat)) : list (nat * nat) :=
  filter (fun kv => negb (Nat.eqb (fst kv) k)) m.

(* ------------------------------------------------------------- the state *)

Record state := St {
  subs : dset;                 (* _RESOURCE_SUBSCRIBERS: (resource, subscriber) *)
  watches : dset;              (* _SUBSCRIBER_RESOURCES: (subscriber, resource) *)
  queues : list (nat * nat);   (* _SUBSCRIPTION_QUEUES: resource -> heap index  *)
  heap : list queue            (* every queue object ever created               *)
}.

Definition empty : state := St [] [] [] [].

Inductive exn := Cycle | KeyError | QueueShutDown | QueueEmpty | ValueError | OtherExn.

Inductive result :=
| RNone                        (* returned None *)
| RQueue (q : nat)             (* register: the queue object (heap index) *)
| RItem (e : event)            (* get_nowait *)
| RSet (l : list nat)          (* get_subscribers / get_subscriptions *)
| Raised (x : exn)
| ROutOfFuel.                  (* model artefact: the cycle check ran out of fuel *)

(* ------------------------------------------------------ _check_for_cycles *)

Inductive cres := NoCycle | CycleFound | OutOfFuel.

(* one pass of the `for check_resource in to_check` loop *)
Definition next_level (w : dset) (to_check : list nat) : list nat :=
  dedup (flat_map (fun c => dget c w) to_check).

(* the `while to_check` loop; in Python it does not terminate on a graph with a
   cycle that avoids [subscriber] *)
Fixpoint bfs (fuel : nat) (w : dset) (subscriber : nat) (to_check : list nat) : cres :=
  match fuel with
  | 0 => OutOfFuel
  | S f =>
      match to_check with
      | [] => NoCycle
      | _ => if mem subscriber to_check then CycleFound
             else bfs f w subscriber (next_level w to_check)
      end
  end.

(* resources that occur in the watch graph *)
Definition nodes (w : dset) : list nat := dedup (map fst w ++ map snd w).

(* "number of resources known" + 2 *)
Definition fuel_for (w : dset) : nat := S (S (length (nodes w))).

Definition check_for_cycles (w : dset) (subscriber : nat) (resources : list nat) : cres :=
  bfs (fuel_for w) w subscriber (dedup resources).

(* ------------------------------------------------------------ operations *)

(* notify_subscribers *)
Definition active_queues (n : nat) (s : state) : list nat :=
  flat_map (fun r => match lookup r (queues s) with Some q => [q] | None => [] end)
           (dget n (subs s)).

Definition notify (n t : nat) (s : state) : state :=
  St (subs s) (watches s) (queues s)
     (fold_left (fun h q => upd q (put_quiet (ERes n t)) h) (active_queues n s) (heap s)).

(* register; [t] is what time.monotonic() returns; [c] = 0: no queue passed
   (a fresh unbounded LifoQueue is created), [c] > 0: the caller passes its own
   fresh asyncio.LifoQueue(maxsize=c).  For an already registered resource the
   passed queue is ignored. *)
Definition register (r t c : nat) (s : state) : state * result :=
  match lookup r (queues s) with
  | Some q => (s, RQueue q)
  | None =>
      let q := length (heap s) in
      (notify r t (St (subs s) (watches s) ((r, q) :: queues s) (heap s ++ [new_queue c])),
       RQueue q)
  end.

Definition subscribe (sb r : nat) (s : state) : state * result :=
  match check_for_cycles (watches s) sb [r] with
  | OutOfFuel => (s, ROutOfFuel)
  | CycleFound => (s, Raised Cycle)
  | NoCycle => (St (dadd r sb (subs s)) (dadd sb r (watches s)) (queues s) (heap s), RNone)
  end.

(* `for resource in current - new: _RESOURCE_SUBSCRIBERS[resource].remove(subscriber)`
   false = a KeyError interrupted the loop (the dict keeps what was done so far;
   the iteration order of a Python set is unspecified, the model uses list
   order — the proofs show this branch is unreachable) *)
Fixpoint remove_all (sb : nat) (rs : list nat) (d : dset) : dset * bool :=
  match rs with
  | [] => (d, true)
  | r :: rest => match dremove r sb d with
                 | None => (d, false)
                 | Some d' => remove_all sb rest d'
                 end
  end.

Definition subscribe_only_to (sb : nat) (rs : list nat) (s : state) : state * result :=
  match check_for_cycles (watches s) sb rs with
  | OutOfFuel => (s, ROutOfFuel)
  | CycleFound => (s, Raised Cycle)
  | NoCycle =>
      let current := dget sb (watches s) in
      let new := dedup rs in
      let subs1 := fold_left (fun d r => dadd r sb d)
                             (filter (fun r => negb (mem r current)) new) (subs s) in
      match remove_all sb (filter (fun r => negb (mem r new)) current) subs1 with
      | (subs2, false) => (St subs2 (watches s) (queues s) (heap s), Raised KeyError)
      | (subs2, true) => (St subs2 (dassign sb new (watches s)) (queues s) (heap s), RNone)
      end
  end.

Definition unsubscribe (u r : nat) (s : state) : state * result :=
  match dremove r u (subs s) with
  | None => (s, Raised KeyError)
  | Some subs' =>
      match dremove u r (watches s) with
      | None => (St subs' (watches s) (queues s) (heap s), Raised KeyError)
      | Some w' => (St subs' w' (queues s) (heap s), RNone)
      end
  end.

Definition kill_resource (r : nat) (s : state) : state * result :=
  match lookup r (queues s) with
  | None => (s, RNone)
  | Some q => (St (subs s) (watches s) (queues s) (upd q kill_q (heap s)), RNone)
  end.

Definition drain_q (q : queue) : queue * bool :=
  match drain (items q) (unfinished q) with
  | (its, unf, ok) => (Q its (shut q) unf (cap q), ok)
  end.

Definition deregister (r t : nat) (s : state) : state * result :=
  match subscribe_only_to r [] s with
  | (s1, RNone) =>
      match lookup r (queues s1) with
      | None => (notify r t s1, RNone)
      | Some q =>
          let h1 := upd q kill_q (heap s1) in
          let qs := remove_key r (queues s1) in
          match nth_error h1 q with
          | None => (notify r t (St (subs s1) (watches s1) qs h1), RNone)  (* dangling index: excluded by wf *)
          | Some qu =>
              match drain_q qu with
              | (qu', true) =>
                  (notify r t (St (subs s1) (watches s1) qs (upd q (fun _ => qu') h1)), RNone)
              | (qu', false) =>
                  (St (subs s1) (watches s1) qs (upd q (fun _ => qu') h1), Raised ValueError)
              end
          end
      end
  | other => other
  end.

(* a consumer holding queue object [q]: q.get_nowait() [; q.task_done()] *)
Definition get_nowait (done : bool) (q : nat) (s : state) : state * result :=
  match nth_error (heap s) q with
  | None => (s, RNone)          (* no such object: never generated *)
  | Some qu =>
      match items qu with
      | [] => (s, Raised (if shut qu then QueueShutDown else QueueEmpty))
      | e :: rest =>
          if done then
            match unfinished qu with
            | 0 => (St (subs s) (watches s) (queues s)
                       (upd q (fun _ => Q rest (shut qu) 0 (cap qu)) (heap s)), Raised ValueError)
            | S u => (St (subs s) (watches s) (queues s)
                         (upd q (fun _ => Q rest (shut qu) u (cap qu)) (heap s)), RItem e)
            end
          else (St (subs s) (watches s) (queues s)
                   (upd q (fun _ => Q rest (shut qu) (unfinished qu) (cap qu)) (heap s)), RItem e)
      end
  end.

Inductive op :=
| ORegister (r t c : nat)
| OSubscribe (sb r : nat)
| OSubscribeOnly (sb : nat) (rs : list nat)
| OUnsubscribe (u r : nat)
| ONotify (n t : nat)
| OKill (r : nat)
| ODeregister (r t : nat)
| OGetSubscribers (r : nat)
| OGetSubscriptions (r : nat)
| OGet (q : nat)
| OGetDone (q : nat).

Definition step (o : op) (s : state) : state * result :=
  match o with
  | ORegister r t c => register r t c s
  | OSubscribe sb r => subscribe sb r s
  | OSubscribeOnly sb rs => subscribe_only_to sb rs s
  | OUnsubscribe u r => unsubscribe u r s
  | ONotify n t => (notify n t s, RNone)
  | OKill r => kill_resource r s
  | ODeregister r t => deregister r t s
  | OGetSubscribers r => (s, RSet (dget r (subs s)))
  | OGetSubscriptions r => (s, RSet (dget r (watches s)))
  | OGet q => get_nowait false q s
  | OGetDone q => get_nowait true q s
  end.

(* the state after a sequence of operations, oldest first *)
Definition run (ops : list op) (s : state) : state :=
  fold_left (fun st o => fst (step o st)) ops s.
