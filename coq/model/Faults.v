(* Faults.v — property C09: what a Workflow reconcile pass does when API calls
   fail, and what a single ResourceFunction does when its API calls fail.

   PART 1 (src/koreo/workflow/reconcile.py, as it is NOW, i.e. after the commits
   "fix: timed-out and crashed workflow steps no longer emit a Ready condition" and
   "fix: a step that raises an exception object with a false truth value is
   reported as Retry" (the loops test `task.exception() is not None`) and "fix: an
   exception whose __str__ raises no longer escapes reconcile_workflow"
   (messages are built through _error_text)):
     task end states                          tend
     _reconcile_steps  151-192  loop body     classify / step_entry
     _reconcile_steps  100-218                reconcile_steps
     reconcile_workflow 35-92                 reconcile_workflow_m
     _condition_helper 672-726                reason_of / condition_helper
     _reconcile_step   304-358  (dependency gate: asyncio.wait, task.result())
                                              gate_of / step_end / run_steps
     _for_each_reconciler 605-669             foreach_result
     _reconcile_step_logic 495-511 (sub-workflow result)   subworkflow_result
   What asyncio does (TaskGroup cancels the not-yet-finished tasks when one
   raises or when asyncio.timeout fires) is NOT derived here: a [splan] says,
   per step, whether the group cancelled the task before it got past its
   dependency gate and how the step's own work ended; the theorems quantify
   over every plan.

   PART 2 (src/koreo/resource_function/reconcile/__init__.py):
     load_api_resource 379-430                get_view
     _create_api_resource 685-715             post_effect
     unguarded api_resource.patch / .delete 235, 344, 365     mut_effect
     whole pass with a fault plan             reconcile_rf_faulty
   on top of the fault-free model ResourceFn.reconcile_rf.

   Proof-free; proofs are in proofs/Faults_proofs.v. *)
From Koreo Require Export Json Outcome Payload ResourceFn.
Local Open Scope list_scope.

(* ================================================================== *)
(* PART 1 — workflow layer                                            *)
(* ================================================================== *)

Definition STEP_TIMEOUT : Z := 10.
Definition TIMEOUT_RETRY_DELAY : Z := 30.
Definition UNKNOWN_ERROR_RETRY_DELAY : Z := 60.

(* StepResult.result : an UnwrappedOutcome (bare value or non-Ok outcome) *)
Notation sres := (uoutcome json).

(* How an asyncio task ended.  [Excepted]: the task raised an exception — any
   object: the code tests `elif task.exception() is not None:` and builds the
   Retry message through _error_text(), which cannot raise (it falls back to
   the class name when the object's own __str__ raises). *)
Inductive tend :=
| Finished (r : sres)
| Cancelled
| Excepted.

(* a Python exception escaping the function being modelled *)
Inductive wres (A : Type) := WDone (a : A) | WRaised.
Arguments WDone {A}. Arguments WRaised {A}.

Definition task_cancelled (e : tend) : bool :=
  match e with Cancelled => true | _ => false end.
(* task.exception() is not None (None when the task returned) *)
Definition task_has_exception (e : tend) : bool :=
  match e with Excepted => true | _ => false end.
(* task.result(): returns, or re-raises CancelledError / the exception *)
Definition task_result (e : tend) : wres sres :=
  match e with Finished r => WDone r | _ => WRaised end.

Definition timeout_outcome : sres :=
  UOut (Retry TIMEOUT_RETRY_DELAY (Some "Timeout running step") (Some "<workflow_key>")).
Definition error_outcome : sres :=
  UOut (Retry UNKNOWN_ERROR_RETRY_DELAY (Some "Unknown error") (Some "<workflow_key>")).

(* the if / elif / elif chain at the end of _reconcile_steps (and the one in
   _for_each_reconciler, whose extra `else` arm is unreachable: every task of
   a TaskGroup is done when the group has exited) *)
Definition classify (e : tend) : wres sres :=
  if task_cancelled e then WDone timeout_outcome
  else if task_has_exception e then WDone error_outcome
  else task_result e.

(* ---------- conditions ---------- *)

Record condition := { cd_type : string; cd_reason : string }.

(* _condition_helper's `match outcome` *)
Definition reason_of (o : sres) : string :=
  match o with
  | UOut (DepSkip _ _) => "DepSkip"
  | UOut (Skip _ _) => "Skip"
  | UOut (Retry _ _ _) => "Wait"
  | UOut (PermFail _ _) => "Failure"
  | UOut (Ok _ _) => "Ready"
  | UVal _ => "Ready"
  end.

Definition condition_helper (ty : string) (o : sres) : condition :=
  {| cd_type := ty; cd_reason := reason_of o |}.

(* whom a condition talks about (not part of the Python dict; used to STATE
   truthfulness) *)
Inductive csource := CStep (i : nat) | CWorkflow.

(* ---------- _reconcile_steps: classification loop ---------- *)

Record wstep := {
  w_deps : list nat;            (* indices of the steps in dynamic_input_keys, in iteration order *)
  w_cond : option string }.     (* step.condition.type_, if configured *)

Definition step_entry (i : nat) (w : wstep) (e : tend)
  : wres (sres * list (csource * condition)) :=
  match classify e with
  | WRaised => WRaised
  | WDone o =>
      let conds :=
        if task_cancelled e || task_has_exception e
        then [(CStep i, condition_helper "Ready" o)]   (* outcome=timeout_outcome.result / error_outcome.result *)
        else match w_cond w with
             | Some ty => [(CStep i, condition_helper ty o)]
             | None => []
             end in
      WDone (o, conds)
  end.

Fixpoint steps_loop (i : nat) (ws : list wstep) (ends : list tend)
  : wres (list sres * list (csource * condition)) :=
  match ws, ends with
  | w :: wr, e :: er =>
      match step_entry i w e with
      | WRaised => WRaised
      | WDone (o, cs) =>
          match steps_loop (S i) wr er with
          | WRaised => WRaised
          | WDone (os, css) => WDone (o :: os, cs ++ css)
          end
      end
  | _, _ => WDone ([], [])
  end.

Definition reconcile_steps (ws : list wstep) (ends : list tend) := steps_loop 0 ws ends.

(* ---------- reconcile_workflow ---------- *)

Definition sres_of_uresult (r : uresult json) : sres :=
  match r with UList vs => UVal (JList vs) | UNon o => UOut o end.

Record wresult := {
  wr_outcomes : list sres;
  wr_conditions : list (csource * condition);
  wr_overall : sres }.

Definition reconcile_workflow_m (ws : list wstep) (ends : list tend) : wres wresult :=
  match reconcile_steps ws ends with
  | WRaised => WRaised
  | WDone (outs, conds) =>
      let overall := sres_of_uresult (Outcome.unwrapped_combine outs) in
      WDone {| wr_outcomes := outs;
               wr_conditions := conds ++ [(CWorkflow, condition_helper "Ready" overall)];
               wr_overall := overall |}
  end.

(* _reconcile_step_logic, `case structure.Workflow()`: an Ok sub-workflow
   contributes its state, otherwise its overall outcome *)
Definition sres_ok (o : sres) : bool :=
  match o with UVal _ => true | UOut (Ok _ _) => true | UOut _ => false end.

Definition subworkflow_result (r : wres wresult) (state : json) : tend :=
  match r with
  | WRaised => Excepted                (* unreachable: see reconcile_workflow_total *)
  | WDone w => if sres_ok (wr_overall w) then Finished (UVal state) else Finished (wr_overall w)
  end.

(* ---------- _reconcile_step: the dependency gate ---------- *)

Inductive gate := GInvoke | GDepSkip | GCancelled | GExcepted.

(* `for task in dependencies: step_result = task.result(); match step_result.result: …`
   — the first dependency that is not Ok decides; task.result() of a cancelled
   / crashed dependency raises inside the dependent *)
Fixpoint gate_of (deps : list tend) : gate :=
  match deps with
  | [] => GInvoke
  | Finished r :: rest => if sres_ok r then gate_of rest else GDepSkip
  | Cancelled :: _ => GCancelled
  | Excepted :: _ => GExcepted
  end.

Record splan := {
  p_abort : bool;    (* the task group cancelled this task before it got past the gate *)
  p_logic : tend }.  (* how the step's own work (inputs, skipIf, forEach, Logic) ends if it starts *)

Definition depskip_result : sres := UOut (DepSkip (Some "dependency not ready") (Some "<step>")).

(* end state of the step task, and whether its Logic was invoked *)
Definition step_end (deps : list tend) (p : splan) : tend * bool :=
  if p_abort p then (Cancelled, false) else
  match gate_of deps with
  | GInvoke => (p_logic p, true)
  | GDepSkip => (Finished depskip_result, false)
  | GCancelled => (Cancelled, false)
  | GExcepted => (Excepted, false)
  end.

(* a dependency index that does not name an earlier step cannot occur
   (prepare rejects it); it reads as a cancelled task *)
Definition dep_ends (ends : list tend) (deps : list nat) : list tend :=
  map (fun d => nth d ends Cancelled) deps.

(* steps are started in listed order; [ends] holds the end states of the
   steps before the current one; the trace lists the indices of the steps
   whose Logic was invoked *)
Fixpoint run_from (ws : list wstep) (ps : list splan) (ends : list tend) (trace : list nat)
  : list tend * list nat :=
  match ws, ps with
  | w :: wr, p :: pr =>
      let '(e, inv) := step_end (dep_ends ends (w_deps w)) p in
      run_from wr pr (ends ++ [e]) (if inv then trace ++ [List.length ends] else trace)
  | _, _ => (ends, trace)
  end.

Definition run_steps (ws : list wstep) (ps : list splan) : list tend * list nat :=
  run_from ws ps [] [].

(* one whole pass of a (flat) workflow under a plan *)
Definition run_workflow (ws : list wstep) (ps : list splan) : wres wresult * list nat :=
  let '(ends, trace) := run_steps ws ps in
  (reconcile_workflow_m ws ends, trace).

(* ---------- _for_each_reconciler: classification of the item tasks ---------- *)

Fixpoint classify_all (ends : list tend) : wres (list sres) :=
  match ends with
  | [] => WDone []
  | e :: r => match classify e, classify_all r with
              | WDone o, WDone os => WDone (o :: os)
              | _, _ => WRaised
              end
  end.

Definition sres_error (o : sres) : bool :=
  match o with UOut (Retry _ _ _) | UOut (PermFail _ _) => true | _ => false end.

Definition error_part (os : list sres) : list (outcome json) :=
  flat_map (fun o => match o with
                     | UOut (Retry d m l) => [Retry d m l]
                     | UOut (PermFail m l) => [PermFail m l]
                     | _ => []
                     end) os.

(* _outcome_encoder: a skip becomes its text (prose, not modelled), a value stays *)
Definition skip_text : json := JStr "<skip>".
Definition outcome_encoder (o : sres) : json :=
  match o with
  | UVal v => v
  | UOut (Ok (Single v) _) => v
  | UOut (Ok (Many vs) _) => JList vs
  | UOut _ => skip_text
  end.

(* (the empty iterator returns [] before any task is made) *)
Definition foreach_result (ends : list tend) : wres sres :=
  match classify_all ends with
  | WRaised => WRaised
  | WDone outs =>
      let eo := Outcome.combine (error_part outs) in
      if is_error eo then WDone (UOut eo)
      else WDone (UVal (JList (map outcome_encoder outs)))
  end.

(* ================================================================== *)
(* PART 2 — one ResourceFunction against a faulty API                  *)
(* ================================================================== *)

(* what one API call does *)
Inductive fault :=
| FNone
| FExc (after : bool)              (* raises a plain Exception; after = the call took effect first *)
| FSrv (code : Z) (after : bool)   (* raises kr8s.ServerError with that HTTP status *)
| FHang                            (* never answers (until the task is cancelled) *)
| FCancelled.                      (* raises asyncio.CancelledError *)

(* a pass makes at most two calls: the GET and one mutation *)
Record fplan := { fp_get : fault; fp_mut : fault }.

Inductive ffres :=
| FRes (r : fres)      (* reconcile_resource_function returned / raised (FRaise) *)
| FHung                (* the pass is stuck in an API call *)
| FCancelRaised.       (* CancelledError propagates out of the pass *)

Definition with_live (s : scenario) (live : option json) : scenario :=
  {| s_cfg := s_cfg s; s_pre := s_pre s; s_locals_err := s_locals_err s; s_name := s_name s;
     s_lookup := s_lookup s; s_live := live; s_template := s_template s;
     s_overlays := s_overlays s; s_create_overlay := s_create_overlay s;
     s_owner_ns := s_owner_ns s; s_owner_ref := s_owner_ref s; s_match := s_match s;
     s_post := s_post s; s_return := s_return s |}.

(* load_api_resource: what the rest of the pass gets to see *)
Inductive view :=
| VSees (live : option json)   (* the object / None *)
| VRetry                       (* Retry(DEFAULT_LOAD_RETRY_DELAY, location "load resource") *)
| VHung | VCancel.

Definition get_view (f : fault) (actual : option json) : view :=
  match f with
  | FNone => VSees actual
  | FExc _ => VRetry                                 (* except Exception *)
  | FSrv code _ => if (code =? 404)%Z then VSees None  (* matches = None: "not found" *)
                   else VRetry                       (* except kr8s.ServerError, not 404 *)
  | FHang => VHung
  | FCancelled => VCancel
  end.

Definition load_retry : fres := FStop (StopRetry DEFAULT_LOAD_RETRY_DELAY "load resource").

(* _create_api_resource's try/except around new_resource.create(), against a
   server that answers 409 when the object exists *)
Definition post_effect (c : cfg) (ok_result : fres) (f : fault) (actual : option json) (obj : json)
  : ffres * option json :=
  let contention := FRes (FStop (StopRetry (c_create_delay c) "spec.create(contention)")) in
  let permfail := FRes (FStop (StopPermFail "spec.create")) in
  match f with
  | FHang => (FHung, actual)
  | FCancelled => (FCancelRaised, actual)
  | FExc false => (permfail, actual)
  | FSrv code false => (if (code =? 409)%Z then contention else permfail, actual)
  | FNone | FExc true | FSrv _ true =>
      match actual with
      | Some _ => (contention, actual)                 (* the server itself answers 409 *)
      | None =>
          (match f with
           | FNone => FRes ok_result
           | FSrv code _ => if (code =? 409)%Z then contention else permfail
           | _ => permfail
           end, Some obj)
      end
  end.

(* `await api_resource.patch(...)` / `await api_resource.delete()` are not
   guarded: whatever they raise leaves reconcile_resource_function *)
Definition mut_effect (ok_result : fres) (f : fault) (actual : option json) (m : call)
  : ffres * option json :=
  match f with
  | FHang => (FHung, actual)
  | FCancelled => (FCancelRaised, actual)
  | FExc false | FSrv _ false => (FRes FRaise, actual)
  | FNone | FExc true | FSrv _ true =>
      match actual with
      | None => (FRes FRaise, None)                    (* server: 404 -> kr8s.NotFoundError *)
      | Some _ =>
          (match f with FNone => FRes ok_result | _ => FRes FRaise end, apply_call actual m)
      end
  end.

(* one pass of reconcile_resource_function for scenario [s] (whose [s_live] is
   the ACTUAL cluster content) under fault plan [fp]:
   result, API calls issued, cluster content afterwards *)
Definition reconcile_rf_faulty (s : scenario) (fp : fplan) : ffres * list call * option json :=
  let actual := s_live s in
  match reconcile_rf s with
  | (r0, []) => (FRes r0, [], actual)                  (* stopped before the cluster is touched *)
  | (_, g :: _) =>
      match get_view (fp_get fp) actual with
      | VRetry => (FRes load_retry, [g], actual)
      | VHung => (FHung, [g], actual)
      | VCancel => (FCancelRaised, [g], actual)
      | VSees v =>
          let '(r, calls) := reconcile_rf (with_live s v) in
          match calls with
          | _ :: m :: _ =>
              let '(fr, after) :=
                match m with
                | CPost _ _ p => post_effect (s_cfg s) r (fp_mut fp) actual (body p)
                | _ => mut_effect r (fp_mut fp) actual m
                end in
              (fr, calls, after)
          | _ => (FRes r, calls, actual)
          end
      end
  end.

(* did the pass consume an injected fault? *)
Definition fault_fired (s : scenario) (fp : fplan) : bool :=
  let '(_, calls, _) := reconcile_rf_faulty s fp in
  match calls with
  | [] => false
  | [_] => match fp_get fp with FNone => false | _ => true end
  | _ => match fp_get fp, fp_mut fp with FNone, FNone => false | _, _ => true end
  end.

(* how the step task that runs this function ends (workflow layer) *)
Definition stop_outcome (st : stop) : outcome json :=
  match st with
  | StopPermFail t => PermFail (Some t) None
  | StopRetry d t => Retry d (Some t) None
  | StopSkip t => Skip (Some t) None
  | StopDepSkip t => DepSkip (Some t) None
  end.

Definition tend_of (r : ffres) : tend :=
  match r with
  | FRes (FStop st) => Finished (UOut (stop_outcome st))
  | FRes (FValue (Some v)) => Finished (UVal v)
  | FRes (FValue None) => Finished (UVal JNull)
  | FRes FRaise => Excepted
  | FHung => Cancelled              (* asyncio.timeout(STEP_TIMEOUT) cancels the task *)
  | FCancelRaised => Cancelled
  end.

(* fault-free pass over the cluster: result and new content *)
Definition pass_ok (s : scenario) : fres * option json :=
  let '(r, calls) := reconcile_rf s in (r, apply_calls (s_live s) calls).

(* ---------- several passes over the same object ---------- *)

(* the comparator's verdict (validate_match(...).match) as a function of the
   cluster content; everything else the scenario says stays fixed (the inputs
   of the function do not change between passes) *)
Definition at_state (s : scenario) (mf : option json -> bool) (c : option json) : scenario :=
  {| s_cfg := s_cfg s; s_pre := s_pre s; s_locals_err := s_locals_err s; s_name := s_name s;
     s_lookup := s_lookup s; s_live := c; s_template := s_template s;
     s_overlays := s_overlays s; s_create_overlay := s_create_overlay s;
     s_owner_ns := s_owner_ns s; s_owner_ref := s_owner_ref s; s_match := mf c;
     s_post := s_post s; s_return := s_return s |}.

Definition pass_at (s : scenario) (mf : option json -> bool) (c : option json) : fres * option json :=
  pass_ok (at_state s mf c).

Definition faulty_pass_at (s : scenario) (mf : option json -> bool) (fp : fplan) (c : option json)
  : ffres * option json :=
  let '(r, _, c') := reconcile_rf_faulty (at_state s mf c) fp in (r, c').

(* cluster content after n fault-free passes *)
Fixpoint state_after (s : scenario) (mf : option json -> bool) (n : nat) (c : option json) : option json :=
  match n with
  | O => c
  | S k => state_after s mf k (snd (pass_at s mf c))
  end.

(* result of the (n+1)-th fault-free pass *)
Definition result_at (s : scenario) (mf : option json -> bool) (n : nat) (c : option json) : fres :=
  fst (pass_at s mf (state_after s mf n c)).

(* cluster content after a prefix of passes in which faults occur *)
Fixpoint faulty_prefix (s : scenario) (mf : option json -> bool) (fps : list fplan) (c : option json)
  : option json :=
  match fps with
  | [] => c
  | fp :: r => faulty_prefix s mf r (snd (faulty_pass_at s mf fp c))
  end.

(* "the live object meets the target and carries the parent's owner reference
   where it should" — the conclusion of C04's patch_reaches_target /
   match_refl_sent and C08's owner-reference laws, as a predicate on a state *)
Definition owner_ok (s : scenario) (l : json) : bool :=
  match s_name s with
  | NameOk _ ns =>
      if c_owned (s_cfg s) && opt_str_eqb (s_owner_ns s) ns
      then reffed_truthy (validate_owner_reffed l (s_owner_ref s))
      else true
  | _ => true
  end.
