(* FnTestMatch.v — model of the verdict half of src/koreo/function_test/run.py
   (line numbers of the snapshot the model was reviewed against):

     MockApi.call_api            79-97     mock_call
     _merge_overlay              100-111   merge_overlay
     _run_test_case 312-340 (the dispatch on the assertion kind)   verdict
     _validate_return_match      357-376   verdict_return
     _validate_resource_match    379-413   verdict_resource
     _validate_outcome_match     416-519   outcome_match
     _strip_last_applied_annotation 530-550  strip_last_applied
     _validate_match             553-617   tmatch_fuel / tmatch
     _obj_to_key, _list_to_object 620-627  obj_key / item_key / keyed
     _validate_dict_match        630-677   dict_match (set_keys, map_fields, entry_match)
     _is_object_list             680-683   object_list (keyed_list = object_list then keyed)
     _validate_list_match        686-703   list_match
     _validate_set_match         706-745   set_match (members are (is_bool, value) pairs: strict_eq)

   Follows the repaired code (commits 58c8051, 87fca03): under a map directive
   a value that is not a list of objects is a mismatch (no raise; '' / {} no
   longer stand for the empty list), and set membership keeps booleans and
   numbers apart.

   and of how prepare.py:216-239 turns `expectOutcome` into the expected
   outcome (predicate_helpers.predicate_to_koreo_result)         expect_outcome_of.

   Proof-free; see proofs/FnTestMatch_proofs.v.  Values are JSON documents
   (plain dict/list/str/int/float/bool/None with string keys).

   Python exceptions are values: every function that can raise returns
   [MRaised] / [None].  ONE exception value stands for all classes, because
   in _validate_dict_match the class that escapes when two keys both raise
   depends on set iteration order.  The comparator re-enters itself on a dict
   synthesised by _list_to_object, so the recursion is by explicit fuel;
   exhaustion is the distinguishable [MFuel], and [tmatch] supplies
   [depth target] which FnTestMatch_proofs.tmatch_fuel_suffices shows enough. *)
From Koreo Require Export Json Outcome.
From Coq Require Import DecimalString.
Local Open Scope list_scope.

(* The constants that DEFINE the property are written here by hand and are
   NOT read from koreo.constants at run time. *)
Definition K_SET : string := "x-koreo-compare-as-set".
Definition K_MAP : string := "x-koreo-compare-as-map".
Definition K_LAST : string := "x-koreo-compare-last-applied".
Definition is_directive (k : string) : bool :=
  String.eqb k K_SET || String.eqb k K_MAP || String.eqb k K_LAST.
Definition LAST_APPLIED : string := "koreo.dev/last-applied-configuration".

(* result of a comparison *)
Inductive mres := MDone (b : bool) | MRaised | MFuel.

(* "every sub-comparison is made, none short-circuits": any raise escapes,
   otherwise the conjunction *)
Definition mand (x y : mres) : mres :=
  match x, y with
  | MFuel, _ | _, MFuel => MFuel
  | MRaised, _ | _, MRaised => MRaised
  | MDone a, MDone b => MDone (a && b)
  end.

(* ---------- small string helpers ---------- *)

(* iterating a Python str yields code points: split UTF-8 bytes into groups
   (a byte 10xxxxxx continues the group before it) *)
Definition is_cont (c : ascii) : bool :=
  let n := N_of_ascii c in (N.leb 128 n && N.ltb n 192)%N.

Fixpoint utf8_chars (s : string) : list string :=
  match s with
  | EmptyString => []
  | String c r =>
      match utf8_chars r, r with
      | h :: tl, String c2 _ =>
          if is_cont c2 then String c h :: tl else String c EmptyString :: h :: tl
      | _, _ => [String c EmptyString]
      end
  end.

Fixpoint prefixb (p s : string) : bool :=
  match p, s with
  | EmptyString, _ => true
  | String a p', String b s' => Ascii.eqb a b && prefixb p' s'
  | _, _ => false
  end.

(* Python `x in s` on str *)
Fixpoint contains (x s : string) : bool :=
  prefixb x s || match s with EmptyString => false | String _ r => contains x r end.

(* str.lower() restricted to ASCII letters (bytes >= 0x80 unchanged) *)
Definition lower_ascii (c : ascii) : ascii :=
  let n := N_of_ascii c in
  if (N.leb 65 n && N.leb n 90)%N then ascii_of_N (n + 32) else c.
Fixpoint lower (s : string) : string :=
  match s with EmptyString => EmptyString | String c r => String (lower_ascii c) (lower r) end.

(* str.strip() restricted to ASCII whitespace: \t \n \v \f \r \x1c-\x1f space *)
Definition is_ws (c : ascii) : bool :=
  let n := N_of_ascii c in ((N.leb 9 n && N.leb n 13) || (N.leb 28 n && N.leb n 32))%N.
Fixpoint lstrip (s : string) : string :=
  match s with
  | String c r => if is_ws c then lstrip r else s
  | EmptyString => EmptyString
  end.
Fixpoint rstrip (s : string) : string :=
  match s with
  | EmptyString => EmptyString
  | String c r => let r' := rstrip r in
                  if is_ws c && String.eqb r' "" then "" else String c r'
  end.
Definition strip_ws (s : string) : string := rstrip (lstrip s).

(* f"{v}".strip() for the value kinds a key field normally holds.  Floats,
   lists and dicts (Python repr) are NOT modelled: [py_key_text] gives "?" and
   the harness does not generate such key-field values (see notes/C19.md).
   The theorems hold for EVERY key-text function (Section variable). *)
Definition py_key_text (v : json) : string :=
  match v with
  | JStr s => strip_ws s
  | JInt z => NilZero.string_of_int (Z.to_int z)
  | JBool true => "True"
  | JBool false => "False"
  | JNull => "None"
  | _ => "?"
  end.

(* ---------- directive extraction (run.py:633-641) ---------- *)

Definition hashable (j : json) : bool :=
  match j with JList _ | JMap _ => false | _ => true end.

Definition nonempty_strs (l : list string) : list string :=
  filter (fun k => negb (String.eqb k "")) l.

(* the str members of `{key for key in X if key}`; only strings can ever be
   equal to a dict key, so other (hashable, truthy) members are dropped *)
Definition truthy_strs (l : list json) : list string :=
  flat_map (fun e => match e with JStr s => if String.eqb s "" then [] else [s] | _ => [] end) l.

(* compare_list_as_set_keys; None = the comprehension raises (value not
   iterable, or a truthy unhashable member) *)
Definition set_keys (t : list (string * json)) : option (list string) :=
  match lookup K_SET t with
  | None => Some []
  | Some (JList l) =>
      if forallb (fun e => negb (py_truthy e) || hashable e) l then Some (truthy_strs l) else None
  | Some (JStr s) => Some (utf8_chars s)
  | Some (JMap m) => Some (nonempty_strs (map fst m))
  | Some _ => None
  end.

(* `[f for f in fields if f]`; None = `fields` is not iterable *)
Definition iter_truthy (f : json) : option (list json) :=
  match f with
  | JList l => Some (filter py_truthy l)
  | JStr s => Some (map JStr (utf8_chars s))
  | JMap m => Some (map JStr (nonempty_strs (map fst m)))
  | _ => None
  end.

Fixpoint map_fields_go (m : list (string * json)) : option (list (string * list json)) :=
  match m with
  | [] => Some []
  | (k, f) :: r =>
      if String.eqb k "" then map_fields_go r
      else match iter_truthy f, map_fields_go r with
           | Some fl, Some rest => Some ((k, fl) :: rest)
           | _, _ => None
           end
  end.

(* compare_as_map; None = raises (value has no .items(), or a field list is
   not iterable) *)
Definition map_fields (t : list (string * json)) : option (list (string * list json)) :=
  match lookup K_MAP t with
  | None => Some []
  | Some (JMap m) => map_fields_go m
  | Some _ => None
  end.

(* ---------- the comparator ---------- *)

Definition in_pyeq (x : json) (l : list json) : bool := existsb (py_eq x) l.

Definition is_bool (j : json) : bool := match j with JBool _ => true | _ => false end.
Definition is_map (j : json) : bool := match j with JMap _ => true | _ => false end.

(* equality of the pairs (isinstance(v, bool), v): Python ==, but a boolean is
   only equal to a boolean *)
Definition strict_eq (x y : json) : bool := py_eq x y && Bool.eqb (is_bool x) (is_bool y).

Definition in_strict (x : json) (l : list json) : bool := existsb (strict_eq x) l.

(* _validate_set_match: building the set of an unhashable member raises
   TypeError which is caught and reported as a mismatch; otherwise mutual
   inclusion of the (is_bool, value) pairs *)
Definition set_match (tl al : list json) : bool :=
  forallb hashable tl && forallb hashable al &&
  forallb (fun x => in_strict x al) tl && forallb (fun y => in_strict y tl) al.

(* _is_object_list: the items when the value is a list of dicts *)
Definition object_list (v : json) : option (list json) :=
  match v with
  | JList l => if forallb is_map l then Some l else None
  | _ => None
  end.

Definition plain_keys (kvs : list (string * json)) : list string :=
  filter (fun k => negb (is_directive k)) (map fst kvs).

Section Match.
  (* f"{obj.get(field)}".strip() *)
  Variable key_text : json -> string.

  (* obj.get(field): None = TypeError (unhashable field) *)
  Definition field_val (obj : list (string * json)) (f : json) : option json :=
    match f with
    | JStr s => Some (match lookup s obj with Some v => v | None => JNull end)
    | JList _ | JMap _ => None
    | _ => Some JNull
    end.

  Fixpoint obj_key (obj : list (string * json)) (fields : list json) : option (list string) :=
    match fields with
    | [] => Some []
    | f :: r =>
        match field_val obj f, obj_key obj r with
        | Some v, Some ks => Some (key_text v :: ks)
        | _, _ => None
        end
    end.

  (* _obj_to_key(item, fields): `item.get` is only reached when there is a
     field, so with an empty field list ANY item has the key "" *)
  Definition item_key (item : json) (fields : list json) : option string :=
    match fields with
    | [] => Some ""
    | _ => match item with
           | JMap obj => option_map (join "$") (obj_key obj fields)
           | _ => None                           (* AttributeError: no .get *)
           end
    end.

  (* the dict comprehension of _list_to_object: later items replace earlier
     ones with the same key *)
  Fixpoint keyed (fields : list json) (l : list json) (acc : list (string * json))
    : option (list (string * json)) :=
    match l with
    | [] => Some acc
    | it :: r =>
        match item_key it fields with
        | Some k => keyed fields r (set_key k it acc)
        | None => None
        end
    end.

  (* a map-directed value read as the collection keyed by the fields:
     None = not a list of objects, or _list_to_object raises (unhashable field) *)
  Definition keyed_list (fields : list json) (v : json) : option (list (string * json)) :=
    match object_list v with
    | Some l => keyed fields l []
    | None => None
    end.

  Section Levels.
    (* the comparator one level down *)
    Variable rec : json -> json -> bool -> mres.

    Definition entry_match (sk : list string) (mf : list (string * list json))
               (k : string) (v w : json) : mres :=
      match lookup k mf with
      | Some fields =>
          match object_list v, object_list w with
          | Some lv, Some lw =>
              match keyed fields lv [], keyed fields lw [] with
              | Some tobj, Some aobj => rec (JMap tobj) (JMap aobj) false
              | _, _ => MRaised                  (* unhashable field *)
              end
          | _, _ => MDone false                  (* "expected an array of objects" *)
          end
      | None => rec v w (mem_str k sk)
      end.

    (* `for compare_key in target_keys & actual_keys` *)
    Fixpoint entries_match (sk : list string) (mf : list (string * list json))
             (tk ak : list (string * json)) (ks : list string) : mres :=
      match ks with
      | [] => MDone true
      | k :: r =>
          mand (match lookup k tk, lookup k ak with
                | Some v, Some w => entry_match sk mf k v w
                | _, _ => MDone true
                end)
               (entries_match sk mf tk ak r)
      end.

    (* _validate_dict_match *)
    Definition dict_match (tk ak : list (string * json)) : mres :=
      match set_keys tk, map_fields tk with
      | Some sk, Some mf =>
          let keys_ok :=
            forallb (fun k => mem_str k (map fst ak)) (plain_keys tk) &&
            forallb (fun k => mem_str k (map fst tk)) (plain_keys ak) in
          mand (MDone keys_ok) (entries_match sk mf tk ak (plain_keys tk))
      | _, _ => MRaised
      end.

    (* _validate_list_match after the length check *)
    Fixpoint list_match (tl al : list json) : mres :=
      match tl, al with
      | x :: tr, y :: ar => mand (rec x y false) (list_match tr ar)
      | _, _ => MDone true
      end.
  End Levels.

  (* _validate_match(target, actual, compare_list_as_set) *)
  Fixpoint tmatch_fuel (n : nat) (t a : json) (as_set : bool) : mres :=
    match n with
    | O => MFuel
    | S n' =>
        match t, a with
        | JMap tk, JMap ak => dict_match (tmatch_fuel n') tk ak
        | JMap _, _ | _, JMap _ => MDone false
        | JList tl, JList al =>
            if as_set then MDone (set_match tl al)
            else if Nat.eqb (List.length tl) (List.length al)
                 then list_match (tmatch_fuel n') tl al
                 else MDone false
        | JList _, _ | _, JList _ => MDone false
        | JBool x, JBool y => MDone (Bool.eqb x y)
        | JBool _, _ | _, JBool _ => MDone false
        | _, _ => MDone (py_eq t a)
        end
    end.

  Fixpoint depth (j : json) : nat :=
    match j with
    | JList l => S (fold_right (fun x m => Nat.max (depth x) m) O l)
    | JMap kvs =>
        S ((fix go (l : list (string * json)) : nat :=
              match l with
              | [] => O
              | (_, v) :: r => Nat.max (depth v) (go r)
              end) kvs)
    | _ => 1%nat
    end.

  Definition tmatch (t a : json) : mres := tmatch_fuel (depth t) t a false.

  (* ---------- _strip_last_applied_annotation; None = raises ---------- *)

  (* len(x) *)
  Definition py_len (j : json) : option nat :=
    match j with
    | JMap m => Some (List.length m)
    | JList l => Some (List.length l)
    | JStr s => Some (List.length (utf8_chars s))
    | _ => None
    end.

  Definition strip_last_applied (a : json) : option json :=
    match a with
    | JMap [] => Some a
    | JMap kvs =>
        match lookup "metadata" kvs with
        | None => Some a
        | Some (JMap md) =>
            match lookup "annotations" md with
            | None => Some a
            | Some ann =>
                match py_len ann with
                | None => None
                | Some O => Some a
                | Some (S O) =>
                    Some (JMap (set_key "metadata" (JMap (del_key "annotations" md)) kvs))
                | Some _ =>
                    match ann with
                    | JMap an =>
                        match lookup LAST_APPLIED an with
                        | Some _ =>
                            Some (JMap (set_key "metadata"
                                          (JMap (set_key "annotations" (JMap (del_key LAST_APPLIED an)) md))
                                          kvs))
                        | None => None            (* KeyError *)
                        end
                    | _ => None                   (* list / str item deletion by str key *)
                    end
                end
            end
        | Some (JStr s) => if contains "annotations" s then None else Some a
        | Some (JList l) => if in_pyeq (JStr "annotations") l then None else Some a
        | Some _ => None                          (* `in` on a non-iterable *)
        end
    | _ => Some a
    end.

  (* ---------- _validate_outcome_match ---------- *)

  (* `if not expected_message: pass` / `elif actual_message and
     expected.lower() in actual.lower()` *)
  Definition msg_ok (em am : option string) : bool :=
    if truthy_os em then truthy_os am && contains (lower (opt_text em)) (lower (opt_text am))
    else true.

  Definition is_unwrapped_ok (a : uoutcome json) : bool :=
    match a with
    | UVal _ => true
    | UOut o => negb (is_error o) && negb (match o with DepSkip _ _ | Skip _ _ => true | _ => false end)
    end.

  (* expected: what ExpectOutcome holds — None (`ok: {}`) or an outcome; an Ok
     can only be put there by calling the function directly *)
  Definition outcome_match (e : option (outcome json)) (a : uoutcome json) : mres :=
    match e, a with
    | Some (Retry ed em _), UOut (Retry ad am _) =>
        MDone (msg_ok em am && ((ed =? 0) || (ed =? ad)))
    | Some (PermFail em _), UOut (PermFail am _) => MDone (msg_ok em am)
    | Some (DepSkip em _), UOut (DepSkip am _) => MDone (msg_ok em am)
    | Some (Skip em _), UOut (Skip am _) => MDone (msg_ok em am)
    | Some (Ok d _), _ =>
        let data := match d with Single v => v | Many vs => JList vs end in
        if negb (py_truthy data) then MDone true
        else match a with
             | UVal v => tmatch data v
             | UOut _ => MDone false    (* an outcome object equals no JSON value *)
             end
    | None, _ => MDone (is_unwrapped_ok a)
    | Some _, _ => MDone false
    end.

  (* ---------- the four verdicts ---------- *)

  Inductive assertion :=
  | ExpectReturn (e : json)        (* JNull stands for Python None *)
  | ExpectResource (e : json)
  | ExpectDelete (b : bool)
  | ExpectOutcome (e : option (outcome json)).

  (* what one run of the Function left behind: reconcile_result,
     api.materialized (None = no call_api at all), api._delete_called *)
  Record observed := { ob_actual : uoutcome json; ob_mat : option json; ob_deleted : bool }.

  Definition verdict_return (e : json) (a : uoutcome json) : mres :=
    match a with
    | UVal v => tmatch e v
    | UOut _ => MDone false
    end.

  Definition is_jnull (j : json) : bool := match j with JNull => true | _ => false end.

  Definition verdict_resource (e : json) (mat : option json) (a : uoutcome json) : mres :=
    match mat, is_jnull e with
    | None, false => MDone false                 (* "No resource changes attempted" *)
    | _, _ =>
        match a with
        | UOut (Retry _ _ _) =>
            match strip_last_applied (match mat with Some m => m | None => JNull end) with
            | Some m' => tmatch e m'
            | None => MRaised
            end
        | _ => MDone false
        end
    end.

  Definition verdict (asrt : assertion) (o : observed) : mres :=
    match asrt with
    | ExpectReturn e => verdict_return e (ob_actual o)
    | ExpectResource e => verdict_resource e (ob_mat o) (ob_actual o)
    | ExpectDelete b => MDone (Bool.eqb (ob_deleted o) b)
    | ExpectOutcome e => outcome_match e (ob_actual o)
    end.
End Match.

(* ---------- MockApi ---------- *)

(* _merge_overlay: the nested merge is computed and then overwritten by
   `updated[key] = value`, so the result is a top-level replace.
   None = overlay/base is not a dict (.items()/.get raise) *)
Definition merge_overlay (base overlay : json) : option json :=
  match base, overlay with
  | JMap b, JMap o => Some (JMap (fold_left (fun acc kv => set_key (fst kv) (snd kv) acc) o b))
  | _, _ => None
  end.

Inductive api_call := CallDelete | CallSend (body : json).

Record mock := { m_current : option json; m_mat : option json;
                 m_called : bool; m_deleted : bool }.

Definition mock_init (cur : option json) : mock :=
  {| m_current := cur; m_mat := None; m_called := false; m_deleted := false |}.

(* MockApi.call_api; None = raises *)
Definition mock_call (m : mock) (c : api_call) : option mock :=
  match c with
  | CallDelete =>
      Some {| m_current := m_current m; m_mat := Some (JMap []); m_called := true; m_deleted := true |}
  | CallSend body =>
      let merged :=
        match m_current m with
        | None => Some body
        | Some cur => if py_truthy cur then merge_overlay cur body else Some body
        end in
      match merged with
      | Some j => Some {| m_current := m_current m; m_mat := Some j;
                          m_called := true; m_deleted := m_deleted m |}
      | None => None
      end
  end.

Fixpoint mock_calls (m : mock) (cs : list api_call) : option mock :=
  match cs with
  | [] => Some m
  | c :: r => match mock_call m c with Some m' => mock_calls m' r | None => None end
  end.

(* ---------- expectOutcome parsing (prepare.py:216-239 through
   predicate_to_koreo_result with "assert": true added) ----------
   spec is the (non-empty) expectOutcome object; result: PRejected = the test
   case is rejected with a PermFail (int() of a non-integer delay text raises
   ValueError, which _prepare_test_case reports since the repair "FunctionTest
   values CEL cannot represent are reported, not raised"), PExpect None = `ok`.
   The match arms are tried in the order ok, depSkip, skip, retry, permFail;
   each needs the named key to hold a mapping with the listed keys. *)
Definition has_map (k : string) (spec : list (string * json)) : option (list (string * json)) :=
  match lookup k spec with Some (JMap m) => Some m | _ => None end.

(* f"{message}" for the value kinds the CRD admits (a string); other kinds
   are rendered by [py_key_text]-like rules without the strip *)
Definition msg_text (v : json) : option string :=
  match v with
  | JStr s => Some s
  | JInt z => Some (NilZero.string_of_int (Z.to_int z))
  | JBool true => Some "True"
  | JBool false => Some "False"
  | JNull => Some "None"
  | _ => None                                   (* not modelled *)
  end.

Inductive parsed :=
| PRejected | PUnmodelled | PUnknown             (* PUnknown: PermFail("Unknown predicate type…") *)
| PExpect (e : option (outcome json)).

Definition expect_outcome_of (spec : list (string * json)) : parsed :=
  match has_map "ok" spec with
  | Some _ => PExpect None
  | None =>
  match (match has_map "depSkip" spec with Some m => lookup "message" m | None => None end) with
  | Some msg => match msg_text msg with Some s => PExpect (Some (DepSkip (Some s) None)) | None => PUnmodelled end
  | None =>
  match (match has_map "skip" spec with Some m => lookup "message" m | None => None end) with
  | Some msg => match msg_text msg with Some s => PExpect (Some (Skip (Some s) None)) | None => PUnmodelled end
  | None =>
  match (match has_map "retry" spec with
         | Some m => match lookup "message" m, lookup "delay" m with
                     | Some msg, Some d => Some (msg, d) | _, _ => None end
         | None => None end) with
  | Some (msg, d) =>
      match d with
      | JInt z => match msg_text msg with
                  | Some s => PExpect (Some (Retry z (Some s) None))
                  | None => PUnmodelled end
      | JBool _ | JNull | JFloat _ _ | JList _ | JMap _ => PRejected (* int("True"/"None"/"5.0"/…): ValueError *)
      | JStr _ => PUnmodelled
      end
  | None =>
  match (match has_map "permFail" spec with Some m => lookup "message" m | None => None end) with
  | Some msg => match msg_text msg with Some s => PExpect (Some (PermFail (Some s) None)) | None => PUnmodelled end
  | None => PUnknown
  end end end end end.
