(* Schema.v — property C20: the JSON-Schema subset the bundled koreo CRDs use,
   validated the way fastjsonschema 2.21.1 (draft-07 code generator) validates
   it, and the "schema gate" every prepare_* function starts with.

   Mirrors:
     src/koreo/schema/__init__.py  validate (l.31-58): compiled validator is
       called on the spec; JsonSchemaValueException -> PermFail, else None;
     fastjsonschema draft04/06 generators: keyword order
       type, enum, anyOf, oneOf, minLength, maxLength, minItems, maxItems,
       items, minProperties, maxProperties, required, properties (defaults are
       written into the document here), additionalProperties;
       `nullable`, `description`, `x-kubernetes-*` are not keywords: ignored;
     the first lines of the five prepare_* functions (value_function/prepare.py
       l.33-39, resource_function/prepare.py l.49-55, resource_template/
       prepare.py l.19-25, workflow/prepare.py l.36-42, function_test/
       prepare.py l.28-34).

   The schema TERMS are not written here: coq/gen/Schemas_gen.v is generated
   from src/koreo/schema/*.yaml on every run by harness/schema_gen.py.
   No proofs in this file. *)
From Koreo Require Import Json.
Local Open Scope list_scope.

(* ------------------------------------------------------------------ *)
(* schema terms                                                        *)
(* ------------------------------------------------------------------ *)

Inductive jtype := TObject | TArray | TString | TInteger | TNumber | TBoolean | TNull.

(* the non-recursive keywords of one schema node; anyOf / oneOf branches are
   restricted (by the translator, fail-closed) to `{required: [...]}` *)
Record constraints := mkC {
  c_type : option jtype;
  c_enum : option (list string);            (* enum of strings *)
  c_anyof : option (list (list string));    (* anyOf: [{required: ks}; ...] *)
  c_oneof : option (list (list string));    (* oneOf: [{required: ks}; ...] *)
  c_minlen : option nat;
  c_maxlen : option nat;
  c_minitems : option nat;
  c_maxitems : option nat;
  c_minprops : option nat;
  c_maxprops : option nat;
  c_required : list string;
  c_addl : bool;                            (* false iff additionalProperties: false *)
  c_default : option json                   (* default: written by the PARENT's properties step *)
}.

Inductive schema :=
| Sch (c : constraints) (items : option schema) (props : option (list (string * schema))).

Definition s_c (s : schema) : constraints := match s with Sch c _ _ => c end.
Definition s_items (s : schema) : option schema := match s with Sch _ i _ => i end.
Definition s_props (s : schema) : option (list (string * schema)) := match s with Sch _ _ p => p end.
Definition s_default (s : schema) : option json := c_default (s_c s).

(* ------------------------------------------------------------------ *)
(* python-level helpers                                                *)
(* ------------------------------------------------------------------ *)

(* float.is_integer() for the dyadic m * 2^e *)
Definition is_integral (m e : Z) : bool :=
  if (0 <=? e)%Z then true else (m mod (2 ^ (- e)) =? 0)%Z.

(* the isinstance test fastjsonschema generates for `type: t` (draft 06+:
   integral floats are integers; bool is never a number) *)
Definition has_type (t : jtype) (j : json) : bool :=
  match t, j with
  | TObject, JMap _ => true
  | TArray, JList _ => true
  | TString, JStr _ => true
  | TBoolean, JBool _ => true
  | TNull, JNull => true
  | TInteger, JInt _ => true
  | TInteger, JFloat m e => is_integral m e
  | TNumber, JInt _ => true
  | TNumber, JFloat _ _ => true
  | _, _ => false
  end.

(* len(str): code points of the UTF-8 byte string = bytes that are not
   continuation bytes 10xxxxxx *)
Definition is_cont_byte (a : ascii) : bool :=
  let n := N_of_ascii a in (128 <=? n)%N && (n <? 192)%N.

Fixpoint py_len (s : string) : nat :=
  match s with
  | EmptyString => 0
  | String a r => if is_cont_byte a then py_len r else S (py_len r)
  end.

Definition has_key {A} (kvs : list (string * A)) (k : string) : bool :=
  match lookup k kvs with Some _ => true | None => false end.

(* `set(ks) - data.keys()` is empty *)
Definition req_ok (kvs : list (string * json)) (ks : list string) : bool :=
  forallb (has_key kvs) ks.

(* number of anyOf/oneOf branches `{required: ks}` a value passes; `required`
   only constrains dicts *)
Definition branches_passing (j : json) (bs : list (list string)) : nat :=
  match j with
  | JMap kvs => List.length (filter (req_ok kvs) bs)
  | _ => List.length bs
  end.

(* ------------------------------------------------------------------ *)
(* validation: None = valid, Some rule = the `rule` of the first        *)
(* JsonSchemaValueException fastjsonschema raises                      *)
(* ------------------------------------------------------------------ *)

Definition check (ok : bool) (rule : string) : option string :=
  if ok then None else Some rule.

Definition andthen (a b : option string) : option string :=
  match a with Some e => Some e | None => b end.
Infix ";;" := andthen (at level 61, right associativity).

Definition le_opt (lo : option nat) (n : nat) : bool :=
  match lo with Some m => Nat.leb m n | None => true end.
Definition ge_opt (hi : option nat) (n : nat) : bool :=
  match hi with Some m => Nat.leb n m | None => true end.

Definition check_type (c : constraints) (j : json) : option string :=
  match c_type c with Some t => check (has_type t j) "type" | None => None end.

(* `data not in [..strings..]`: only an equal str is a member *)
Definition check_enum (c : constraints) (j : json) : option string :=
  match c_enum c with
  | Some vs => check (match j with JStr s => mem_str s vs | _ => false end) "enum"
  | None => None
  end.

Definition check_anyof (c : constraints) (j : json) : option string :=
  match c_anyof c with
  | Some bs => check (Nat.ltb 0 (branches_passing j bs)) "anyOf"
  | None => None
  end.

Definition check_oneof (c : constraints) (j : json) : option string :=
  match c_oneof c with
  | Some bs => check (Nat.eqb (branches_passing j bs) 1) "oneOf"
  | None => None
  end.

Definition check_length (c : constraints) (j : json) : option string :=
  match j with
  | JStr s => check (le_opt (c_minlen c) (py_len s)) "minLength" ;;
              check (ge_opt (c_maxlen c) (py_len s)) "maxLength"
  | _ => None
  end.

Definition check_item_count (c : constraints) (j : json) : option string :=
  match j with
  | JList l => check (le_opt (c_minitems c) (List.length l)) "minItems" ;;
               check (ge_opt (c_maxitems c) (List.length l)) "maxItems"
  | _ => None
  end.

Definition check_prop_count (c : constraints) (j : json) : option string :=
  match j with
  | JMap kvs => check (le_opt (c_minprops c) (List.length kvs)) "minProperties" ;;
                check (ge_opt (c_maxprops c) (List.length kvs)) "maxProperties"
  | _ => None
  end.

Definition check_required (c : constraints) (j : json) : option string :=
  match j with
  | JMap kvs => check (req_ok kvs (c_required c)) "required"
  | _ => None
  end.

(* additionalProperties: false — every key must be a declared property *)
Definition check_addl (c : constraints) (props : option (list (string * schema))) (j : json)
  : option string :=
  match j with
  | JMap kvs =>
      if c_addl c then None
      else check (forallb (fun kv => match props with
                                     | Some ps => has_key ps (fst kv)
                                     | None => false
                                     end) kvs) "additionalProperties"
  | _ => None
  end.

Fixpoint validate (s : schema) (j : json) {struct s} : option string :=
  match s with
  | Sch c items props =>
      check_type c j ;; check_enum c j ;; check_anyof c j ;; check_oneof c j ;;
      check_length c j ;; check_item_count c j ;;
      (match items, j with
       | Some si, JList l =>
           (fix each (l : list json) : option string :=
              match l with
              | [] => None
              | x :: r => validate si x ;; each r
              end) l
       | _, _ => None
       end) ;;
      check_prop_count c j ;; check_required c j ;;
      (match props, j with
       | Some ps, JMap kvs =>
           (fix each (ps : list (string * schema)) : option string :=
              match ps with
              | [] => None
              | (k, sk) :: r =>
                  (match lookup k kvs with Some v => validate sk v | None => None end) ;; each r
              end) ps
       | _, _ => None
       end) ;;
      check_addl c props j
  end.

Definition valid (s : schema) (j : json) : bool :=
  match validate s j with None => true | Some _ => false end.

(* ------------------------------------------------------------------ *)
(* default filling: what the validated document looks like afterwards   *)
(* (fastjsonschema writes `default`s of absent properties into `data`;  *)
(* an inserted default is neither validated nor filled recursively)     *)
(* ------------------------------------------------------------------ *)

(* data[k] := f data[k] if present, else data[k] := d if a default exists *)
Fixpoint upd (k : string) (f : json -> json) (d : option json) (kvs : list (string * json))
  : list (string * json) :=
  match kvs with
  | [] => match d with Some dv => [(k, dv)] | None => [] end
  | (k', v) :: r => if String.eqb k k' then (k', f v) :: r else (k', v) :: upd k f d r
  end.

Fixpoint fill (s : schema) (j : json) {struct s} : json :=
  match s with
  | Sch c items props =>
      match j with
      | JList l =>
          match items with
          | Some si => JList (map (fill si) l)
          | None => j
          end
      | JMap kvs =>
          match props with
          | Some ps =>
              JMap ((fix each (ps : list (string * schema)) (kvs : list (string * json)) :=
                       match ps with
                       | [] => kvs
                       | (k, sk) :: r => each r (upd k (fill sk) (s_default sk) kvs)
                       end) ps kvs)
          | None => j
          end
      | _ => j
      end
  end.

(* ------------------------------------------------------------------ *)
(* the schema gate of prepare_*                                        *)
(* ------------------------------------------------------------------ *)

(* things a preparer may do that the property forbids before the gate has
   passed *)
Inductive event := Compile (src : string) | CacheLookup (kind name : string).

Inductive gate :=
| Rejected (rule : string) (log : list event)   (* returned PermFail(message built from rule) *)
| Proceeds (filled : json).                     (* goes on with the default-filled spec *)

(* `if error := schema.validate(..., validation_required=True): return PermFail(...)`
   as the first statement: nothing has been compiled or looked up yet *)
Definition prepare_gate (S : schema) (spec : json) : gate :=
  match validate S spec with
  | Some rule => Rejected rule []
  | None => Proceeds (fill S spec)
  end.

(* ------------------------------------------------------------------ *)
(* shape facts: what the prepare_* bodies rely on after the gate        *)
(* ------------------------------------------------------------------ *)

Inductive pe := Key (k : string) | Each.

(* every sub-value reached by following the path; nothing is reached through
   a value of the wrong shape (that shape is a separate fact on the prefix) *)
Fixpoint at_path (p : list pe) (j : json) : list json :=
  match p with
  | [] => [j]
  | Key k :: r =>
      match j with
      | JMap kvs => match lookup k kvs with Some v => at_path r v | None => [] end
      | _ => []
      end
  | Each :: r =>
      match j with
      | JList l => flat_map (at_path r) l
      | _ => []
      end
  end.

Inductive fact :=
| FType (p : list pe) (t : jtype)     (* every value at p is a t *)
| FHas (p : list pe) (k : string).    (* every dict at p has key k *)

Definition fact_holds (f : fact) (j : json) : bool :=
  match f with
  | FType p t => forallb (has_type t) (at_path p j)
  | FHas p k => forallb (fun v => match v with JMap kvs => has_key kvs k | _ => true end) (at_path p j)
  end.

Definition shape_ok (fs : list fact) (j : json) : bool := forallb (fun f => fact_holds f j) fs.

(* does the SCHEMA guarantee the fact for every valid, default-filled document? *)
Fixpoint guarantees_type (s : schema) (p : list pe) (t : jtype) {struct p} : bool :=
  match p with
  | [] => match c_type (s_c s) with
          | Some t' => match t', t with
                       | TObject, TObject | TArray, TArray | TString, TString
                       | TBoolean, TBoolean | TNull, TNull | TInteger, TInteger
                       | TNumber, TNumber | TInteger, TNumber => true
                       | _, _ => false
                       end
          | None => false
          end
  | Key k :: r =>
      match s_props s with
      | Some ps => match lookup k ps with
                   | Some sk => guarantees_type sk r t &&
                                match s_default sk with
                                | Some d => forallb (has_type t) (at_path r d)
                                | None => true
                                end
                   | None => false
                   end
      | None => false
      end
  | Each :: r =>
      match s_items s with
      | Some si => guarantees_type si r t
      | None => false
      end
  end.

Fixpoint guarantees_has (s : schema) (p : list pe) (k0 : string) {struct p} : bool :=
  match p with
  | [] => mem_str k0 (c_required (s_c s))
  | Key k :: r =>
      match s_props s with
      | Some ps => match lookup k ps with
                   | Some sk => guarantees_has sk r k0 &&
                                match s_default sk with
                                | Some d => fact_holds (FHas r k0) d
                                | None => true
                                end
                   | None => false
                   end
      | None => false
      end
  | Each :: r =>
      match s_items s with
      | Some si => guarantees_has si r k0
      | None => false
      end
  end.

Definition guarantees (s : schema) (f : fact) : bool :=
  match f with
  | FType p t => guarantees_type s p t
  | FHas p k => guarantees_has s p k
  end.

(* property keys of every node are distinct (true of anything read from a
   YAML mapping; checked on the generated terms) *)
Fixpoint schema_wf (s : schema) : bool :=
  match s with
  | Sch _ items props =>
      match items with Some si => schema_wf si | None => true end &&
      match props with
      | Some ps =>
          nodup_str (map fst ps) &&
          (fix each (ps : list (string * schema)) : bool :=
             match ps with
             | [] => true
             | (_, sk) :: r => schema_wf sk && each r
             end) ps
      | None => true
      end
  end.

(* ---- the facts, read off the Python (see notes/C20.md for line numbers) ---- *)

Definition K := Key.

(* value_function/prepare.py: only `spec.get(...)`; predicate_extractor and
   prepare_(map|overlay)_expression test isinstance themselves *)
Definition facts_ValueFunction : list fact := [ FType [] TObject ].

(* resource_template/prepare.py: `spec.get`; template/context are re-checked
   with isinstance(MapType) before `.get` is used on them *)
Definition facts_ResourceTemplate : list fact := [ FType [] TObject ].

(* resource_function/prepare.py *)
Definition facts_ResourceFunction : list fact := [
  FType [] TObject;
  FHas [] "apiConfig";                                  (* spec.get("apiConfig").get(...) *)
  FType [K "apiConfig"] TObject;
  FType [K "apiConfig"; K "apiVersion"] TString;        (* kr8s get_class: "/" in version *)
  FType [K "apiConfig"; K "kind"] TString;              (* kr8s: kind.lower(), "." in kind *)
  FType [K "apiConfig"; K "plural"] TString;            (* kr8s new_class: plural.lower() *)
  FType [K "resourceTemplateRef"] TObject;              (* resource_template_ref.get("name") *)
  FType [K "overlays"] TArray;                          (* enumerate(spec) *)
  FType [K "overlays"; Each] TObject;                   (* overlay_spec.pop / mapping pattern *)
  FType [K "overlays"; Each; K "overlayRef"; K "name"] TString;  (* hashed: registry.Resource in a set, cache key *)
  FType [K "create"] TObject                            (* spec.get("enabled", True) *)
].

(* workflow/prepare.py *)
Definition facts_Workflow : list fact := [
  FType [] TObject;
  FType [K "steps"] TArray;                                        (* for step_spec in steps_spec *)
  FType [K "steps"; Each] TObject;                                 (* step_spec.get *)
  FType [K "steps"; Each; K "label"] TString;                      (* `in known_steps`: hashed *)
  FType [K "steps"; Each; K "ref"] TObject;                        (* logic_ref.get *)
  FType [K "steps"; Each; K "ref"; K "kind"] TString;              (* logic_kind_map.get(kind): hashed *)
  FType [K "steps"; Each; K "ref"; K "name"] TString;              (* registry.Resource in set([...]) *)
  FType [K "steps"; Each; K "refSwitch"] TObject;                  (* logic_switch.get *)
  FType [K "steps"; Each; K "refSwitch"; K "cases"] TArray;        (* enumerate(cases_spec) *)
  FType [K "steps"; Each; K "refSwitch"; K "cases"; Each] TObject; (* case_spec.get *)
  FType [K "steps"; Each; K "refSwitch"; K "cases"; Each; K "case"] TString;  (* logic_map[case] *)
  FType [K "steps"; Each; K "refSwitch"; K "cases"; Each; K "kind"] TString;
  FType [K "steps"; Each; K "refSwitch"; K "cases"; Each; K "name"] TString;
  FType [K "steps"; Each; K "forEach"] TObject;                    (* spec.get("itemIn") *)
  FType [K "steps"; Each; K "condition"] TObject;                  (* condition_spec.get("type") *)
  FType [K "crdRef"] TObject                                       (* crd_ref_spec.get *)
].

(* ... and the one the Workflow schema does NOT give (finding): _prepare_for_each
   calls condition_spec.get on forEach.condition, which the schema does not mention *)
Definition fact_foreach_condition : fact :=
  FType [K "steps"; Each; K "forEach"; K "condition"] TObject.

(* function_test/prepare.py *)
Definition facts_FunctionTest : list fact := [
  FType [] TObject;
  FType [K "functionRef"; K "name"] TString;            (* registry.Resource used as cache key: hashed *)
  FType [K "testCases"] TArray;                         (* enumerate(spec) *)
  FType [K "testCases"; Each] TObject;                  (* spec.get *)
  FType [K "testCases"; Each; K "label"] TString        (* label.lower() *)
].

(* what predicate_to_koreo_result needs of expectOutcome.retry.delay is more
   than `type: integer` gives: `int(f"{delay}")` fails on 30.0 (finding) *)
Definition strict_int (j : json) : bool := match j with JInt _ => true | _ => false end.
Definition path_ft_delay : list pe :=
  [K "testCases"; Each; K "expectOutcome"; K "retry"; K "delay"].

(* celpy.json_to_cel raises ValueError on integers outside int64 (finding) *)
Definition int64 (z : Z) : bool := ((- 2 ^ 63 <=? z) && (z <? 2 ^ 63))%Z.
