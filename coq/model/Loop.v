(* Loop.v — model of src/koreo/cache.py (prepare_and_cache, delete_from_cache,
   _handle_notifications, _monitor_and_reprepare, _reprepare_and_update_cache,
   _deletor, _REPREPARE_TASKS, _PREPARE_TIMES) together with the part of
   src/koreo/registry.py that cache.py uses (register, subscribe_only_to,
   notify_subscribers, kill_resource, deregister, _kill_resource,
   _check_for_cycles) and of the asyncio machinery underneath (CPython 3.13):
   the FIFO ready queue of handles, tasks, `task.cancel()`, done-callbacks,
   `asyncio.LifoQueue` get / put_nowait / shutdown.

   Self-contained on purpose (it does not import Registry.v / Cache.v).
   Proof-free and executable; the proofs are in proofs/Loop_proofs.v.

   Resources (registry.Resource = kind x name) are natural numbers; the harness
   maps key i to (kind i mod 2, name r<i div 2>), so two kinds share every name.  All the module-level dicts are
   total functions [nat -> ...] (absent = None / empty set), queue objects and
   tasks live in heaps indexed by creation order.

   WHAT IS ATOMIC.  The driver (the harness) performs [Offer], [Delete] and
   [Yield] (= `await asyncio.sleep(0)`).  `await preparer(...)`,
   `await _handle_notifications(...)` never suspend, and in delete_from_cache
   `registry.kill_resource` returns None always, so the `queue.join()` branch
   is dead: Offer and Delete run to completion without the loop running
   anything else.  A Yield runs exactly the handles that are in the ready
   queue when it starts, in FIFO order; handles created meanwhile run at the
   next Yield.

   PREPARERS ARE ATOMIC in this model (hypothesis of every theorem; koreo's own
   preparers contain no await that suspends).  Consequently the guard added to
   _reprepare_and_update_cache in /repo 033ed5d (`if __CACHE.get(resource_key)
   is not cached: return` after `await preparer(...)`) never fires here: nothing
   can replace or delete the entry between the read and the write-back, so the
   model has no counterpart for it.  Preparation that takes loop turns is
   covered by two oracle-only streams of harness/props/C16.py (slow background
   re-preparations; the real prepare_workflow under concurrent offers), not by
   the model.

   ITERATION ORDER OF PYTHON SETS.  notify_subscribers iterates over the set
   _RESOURCE_SUBSCRIBERS[notifier]; the order decides in which order the
   subscribers' monitors are woken, which is observable.  It is a parameter of
   the model: [ord t l] is the order in which the set [l] is iterated by the
   notify call whose event time is [t] (every notify call has its own, fresh,
   event time).  The theorems hold for every [ord] that returns a permutation;
   the correspondence check instantiates it with the orders the harness saw.

   GHOST STATE (no counterpart in the code): [gens] (generation of every
   resource: number of times it was prepared, re-prepared or deleted — the
   harness's preparers keep the same count), the [c_seen] component of a cache
   entry (generation of every declared dependency when the entry was built),
   [bound] (fuel for the cycle check), [err] (an exception escaped or a model
   limitation was hit — see [error]). *)
From Coq Require Export List Arith Bool.
Export ListNotations.
Local Open Scope nat_scope.
Local Open Scope list_scope.

(* ------------------------------------------------------------ small helpers *)

Definition fupd {A} (f : nat -> A) (k : nat) (v : A) : nat -> A :=
  fun x => if Nat.eqb x k then v else f x.

Definition memb (x : nat) (l : list nat) : bool := existsb (Nat.eqb x) l.
Definition set_add (x : nat) (l : list nat) : list nat := if memb x l then l else x :: l.
Definition set_remove (x : nat) (l : list nat) : list nat :=
  filter (fun y => negb (Nat.eqb y x)) l.
Definition dedup (l : list nat) : list nat := nodup Nat.eq_dec l.

(* ----------------------------------------------------------------- objects *)

Inductive event := EKill | ERes (notifier time : nat).

(* asyncio.LifoQueue.  [q_items]: head = top of the stack (what get returns
   next; Python's list is the reverse).  [q_getter]: the task suspended in
   `await queue.get()` (Queue._getters; at most one in this system — a second
   one is flagged [EGetter]).  A getter future that was cancelled stays in
   Queue._getters until it is skipped by the next put / removed by its own
   task; it is inert, so the model removes it at once.  _unfinished_tasks is
   not modelled: every get is followed by exactly one task_done, nothing joins
   (the harness asserts _unfinished_tasks = len(items) after every op). *)
Record queue := mkQ { q_items : list event; q_shut : bool; q_getter : option nat }.

Definition new_queue : queue := mkQ [] false None.

Inductive tstatus :=
| TNew       (* created; its first __step is in the ready queue            *)
| TRunning   (* being stepped right now                                     *)
| TWaiting   (* suspended in queue.get() on a pending getter future        *)
| TWoken     (* suspended in queue.get(), wake-up handle in the ready queue *)
| TDone.     (* finished; done-callback scheduled or already run           *)

(* [t_cancel]: CancelledError will be thrown into the coroutine at its next
   step (Task._must_cancel, or the getter future it waits for was cancelled).
   [t_cancelled]: how it ended (task.cancelled()). *)
Record task := mkT { t_key : nat; t_queue : option nat; t_status : tstatus;
                     t_cancel : bool; t_cancelled : bool }.

Inductive handle := HStart (tid : nat) | HWake (tid : nat) | HDoneCb (tid : nat).

(* a cache entry: resource_version, the dependencies the spec declares (what
   the preparer returns as subscriptions), and the generations it saw *)
Record centry := mkC { c_version : nat; c_deps : list nat; c_seen : list (nat * nat) }.

Inductive error :=
| ECycle       (* SubscriptionCycle raised (out of scope: declarations are acyclic) *)
| EFuel        (* model artefact: a fuelled loop ran out of fuel                   *)
| EGetter      (* model limitation: two tasks suspended on one queue               *)
| EBadHandle.  (* model artefact: a handle met a task in an impossible status      *)

Record state := mkS {
  cache : nat -> option centry;      (* __CACHE                                   *)
  subs : nat -> list nat;            (* _SUBSCRIBER_RESOURCES: subscriber -> set  *)
  rsubs : nat -> list nat;           (* _RESOURCE_SUBSCRIBERS: resource -> set    *)
  queues : nat -> option nat;        (* _SUBSCRIPTION_QUEUES: resource -> object  *)
  heap : nat -> queue; nq : nat;     (* queue objects ever created                *)
  tasks : nat -> task; nt : nat;     (* tasks ever created                        *)
  rtasks : nat -> option nat;        (* _REPREPARE_TASKS                          *)
  ptimes : nat -> option nat;        (* _PREPARE_TIMES                            *)
  clock : nat;                       (* last value returned by time.monotonic()   *)
  ready : list handle;               (* loop._ready, oldest first                 *)
  gens : nat -> nat;                 (* ghost *)
  bound : nat;                       (* ghost: every key seen so far is < bound   *)
  err : option error }.              (* ghost *)

Definition dummy_task : task := mkT 0 None TDone false false.

Definition init : state :=
  mkS (fun _ => None) (fun _ => []) (fun _ => []) (fun _ => None)
      (fun _ => new_queue) 0 (fun _ => dummy_task) 0
      (fun _ => None) (fun _ => None) 0 [] (fun _ => 0) 0 None.

(* field setters *)
Definition set_cache v s := mkS v (subs s) (rsubs s) (queues s) (heap s) (nq s) (tasks s) (nt s) (rtasks s) (ptimes s) (clock s) (ready s) (gens s) (bound s) (err s).
Definition set_subs v s := mkS (cache s) v (rsubs s) (queues s) (heap s) (nq s) (tasks s) (nt s) (rtasks s) (ptimes s) (clock s) (ready s) (gens s) (bound s) (err s).
Definition set_rsubs v s := mkS (cache s) (subs s) v (queues s) (heap s) (nq s) (tasks s) (nt s) (rtasks s) (ptimes s) (clock s) (ready s) (gens s) (bound s) (err s).
Definition set_queues v s := mkS (cache s) (subs s) (rsubs s) v (heap s) (nq s) (tasks s) (nt s) (rtasks s) (ptimes s) (clock s) (ready s) (gens s) (bound s) (err s).
Definition set_heap v s := mkS (cache s) (subs s) (rsubs s) (queues s) v (nq s) (tasks s) (nt s) (rtasks s) (ptimes s) (clock s) (ready s) (gens s) (bound s) (err s).
Definition set_nq v s := mkS (cache s) (subs s) (rsubs s) (queues s) (heap s) v (tasks s) (nt s) (rtasks s) (ptimes s) (clock s) (ready s) (gens s) (bound s) (err s).
Definition set_tasks v s := mkS (cache s) (subs s) (rsubs s) (queues s) (heap s) (nq s) v (nt s) (rtasks s) (ptimes s) (clock s) (ready s) (gens s) (bound s) (err s).
Definition set_nt v s := mkS (cache s) (subs s) (rsubs s) (queues s) (heap s) (nq s) (tasks s) v (rtasks s) (ptimes s) (clock s) (ready s) (gens s) (bound s) (err s).
Definition set_rtasks v s := mkS (cache s) (subs s) (rsubs s) (queues s) (heap s) (nq s) (tasks s) (nt s) v (ptimes s) (clock s) (ready s) (gens s) (bound s) (err s).
Definition set_ptimes v s := mkS (cache s) (subs s) (rsubs s) (queues s) (heap s) (nq s) (tasks s) (nt s) (rtasks s) v (clock s) (ready s) (gens s) (bound s) (err s).
Definition set_clock v s := mkS (cache s) (subs s) (rsubs s) (queues s) (heap s) (nq s) (tasks s) (nt s) (rtasks s) (ptimes s) v (ready s) (gens s) (bound s) (err s).
Definition set_ready v s := mkS (cache s) (subs s) (rsubs s) (queues s) (heap s) (nq s) (tasks s) (nt s) (rtasks s) (ptimes s) (clock s) v (gens s) (bound s) (err s).
Definition set_gens v s := mkS (cache s) (subs s) (rsubs s) (queues s) (heap s) (nq s) (tasks s) (nt s) (rtasks s) (ptimes s) (clock s) (ready s) v (bound s) (err s).
Definition set_bound v s := mkS (cache s) (subs s) (rsubs s) (queues s) (heap s) (nq s) (tasks s) (nt s) (rtasks s) (ptimes s) (clock s) (ready s) (gens s) v (err s).
(* the first error sticks *)
Definition set_err (e : error) s :=
  match err s with
  | Some _ => s
  | None => mkS (cache s) (subs s) (rsubs s) (queues s) (heap s) (nq s) (tasks s) (nt s) (rtasks s) (ptimes s) (clock s) (ready s) (gens s) (bound s) (Some e)
  end.

Definition upd_task (tid : nat) (f : task -> task) (s : state) : state :=
  set_tasks (fupd (tasks s) tid (f (tasks s tid))) s.
Definition upd_queue (q : nat) (f : queue -> queue) (s : state) : state :=
  set_heap (fupd (heap s) q (f (heap s q))) s.

Definition with_status (st : tstatus) (t : task) : task :=
  mkT (t_key t) (t_queue t) st (t_cancel t) (t_cancelled t).
Definition with_cancel (t : task) : task :=
  mkT (t_key t) (t_queue t) (t_status t) true (t_cancelled t).
Definition with_queue (q : nat) (t : task) : task :=
  mkT (t_key t) (Some q) (t_status t) (t_cancel t) (t_cancelled t).
Definition ended (c : bool) (t : task) : task :=
  mkT (t_key t) (t_queue t) TDone false c.

Definition call_soon (h : handle) (s : state) : state := set_ready (ready s ++ [h]) s.

(* time.monotonic() of the strictly increasing clock *)
Definition tick (s : state) : state := set_clock (S (clock s)) s.

(* ------------------------------------------------------------ asyncio.Queue *)

(* a pending getter future of task [g] gets its result: the task's wake-up is
   scheduled with call_soon.  (A getter whose task is not waiting any more is
   a done future: skipped.) *)
Definition wake (g : nat) (s : state) : state :=
  match t_status (tasks s g) with
  | TWaiting => call_soon (HWake g) (upd_task g (with_status TWoken) s)
  | _ => s
  end.

(* try: q.put_nowait(e) except (QueueFull, QueueShutDown): pass
   put_nowait: raise if shut down; push; _wakeup_next(getters) *)
Definition put_event (q : nat) (e : event) (s : state) : state :=
  let Q := heap s q in
  if q_shut Q then s
  else
    let s1 := upd_queue q (fun _ => mkQ (e :: q_items Q) false None) s in
    match q_getter Q with
    | None => s1
    | Some g => wake g s1
    end.

(* _kill_resource on the queue object:
     try: put_nowait(Kill()) except QueueShutDown: return queue
     queue.shutdown()       -- sets the flag, completes every pending getter *)
Definition kill_q (q : nat) (s : state) : state :=
  if q_shut (heap s q) then s
  else upd_queue q (fun Q => mkQ (q_items Q) true None) (put_event q EKill s).
(* (shutdown() would complete every pending getter: the put just before has
   already taken the only one.) *)

(* ------------------------------------------------------------- registry.py *)

(* _check_for_cycles: level-by-level search; does not terminate in Python on a
   graph with a cycle that avoids [subscriber], hence the fuel.
   Some true = SubscriptionCycle, None = out of fuel. *)
Fixpoint check_cycles (fuel : nat) (sr : nat -> list nat) (subscriber : nat)
         (to_check : list nat) : option bool :=
  match fuel with
  | 0 => None
  | S f =>
      match to_check with
      | [] => Some false
      | _ => if memb subscriber to_check then Some true
             else check_cycles f sr subscriber (dedup (flat_map sr to_check))
      end
  end.

(* subscribe_only_to.  Pointwise form of
     for r in new - current: _RESOURCE_SUBSCRIBERS[r].add(subscriber)
     for r in current - new: _RESOURCE_SUBSCRIBERS[r].remove(subscriber)
     _SUBSCRIBER_RESOURCES[subscriber] = new
   (`.remove` cannot raise KeyError while the two dicts are inverse of each
   other, which is part of the invariant proved in Loop_proofs.v) *)
Definition subscribe_only_to (sb : nat) (rs : list nat) (s : state) : state :=
  let new := dedup rs in
  match check_cycles (S (bound s)) (subs s) sb new with
  | None => set_err EFuel s
  | Some true => set_err ECycle s
  | Some false =>
      let current := subs s sb in
      let rs' := fun r =>
        if memb r new && negb (memb r current) then set_add sb (rsubs s r)
        else if memb r current && negb (memb r new) then set_remove sb (rsubs s r)
        else rsubs s r in
      set_subs (fupd (subs s) sb new) (set_rsubs rs' s)
  end.

(* what the driver does *)
Inductive op := Offer (k v : nat) (deps : list nat) | Delete (k : nat) | Yield.

Section WithOrd.
  (* iteration order of the set of subscribers in the notify call with event
     time [t] *)
  Variable ord : nat -> list nat -> list nat.

  (* notify_subscribers *)
  Definition active_queues (n t : nat) (s : state) : list nat :=
    flat_map (fun r => match queues s r with Some q => [q] | None => [] end)
             (ord t (rsubs s n)).

  Definition notify (n t : nat) (s : state) : state :=
    fold_left (fun st q => put_event q (ERes n t) st) (active_queues n t s) s.

  (* register (default queue): returns the queue object *)
  Definition register (k : nat) (s : state) : nat * state :=
    match queues s k with
    | Some q => (q, s)
    | None =>
        let q := nq s in
        let s1 := set_nq (S q) (set_heap (fupd (heap s) q new_queue)
                                 (set_queues (fupd (queues s) k (Some q)) s)) in
        let s2 := tick s1 in
        (q, notify k (clock s2) s2)
    end.

  (* kill_resource (returns None always) *)
  Definition kill_resource (k : nat) (s : state) : state :=
    match queues s k with
    | None => s
    | Some q => kill_q q s
    end.

  (* deregister *)
  Definition deregister (k t : nat) (s : state) : state :=
    let s1 := subscribe_only_to k [] s in
    let s2 :=
      match queues s1 k with
      | None => s1
      | Some q =>
          let s3 := kill_q q s1 in
          let s4 := set_queues (fupd (queues s3) k None) s3 in
          (* while not queue.empty(): queue.get_nowait(); queue.task_done() *)
          upd_queue q (fun Q => mkQ [] (q_shut Q) (q_getter Q)) s4
      end in
    notify k t s2.

  (* ---------------------------------------------------------------- cache.py *)

  (* asyncio.create_task(_monitor_and_reprepare(...)); _REPREPARE_TASKS[k] = task;
     task.add_done_callback(_deletor(k)) *)
  Definition create_task (k : nat) (s : state) : state :=
    let tid := nt s in
    call_soon (HStart tid)
      (set_rtasks (fupd (rtasks s) k (Some tid))
        (set_nt (S tid) (set_tasks (fupd (tasks s) tid (mkT k None TNew false false)) s))).

  (* GHOST: what the harness's preparer does: it notes the generation of every
     declared dependency ([seen_now], evaluated where the preparer runs) and
     counts one more generation of the resource itself.  The count is ghost
     state that nothing in the code reads and the harness reads only between
     operations, so the model bumps it at the END of the atomic section in
     which the (re-)preparation or deletion happens, right after the
     subscribers were notified (this keeps the pending-event invariant true at
     every intermediate point). *)
  Definition seen_now (deps : list nat) (s : state) : list (nat * nat) :=
    map (fun d => (d, gens s d)) deps.
  Definition bump (k : nat) (s : state) : state :=
    set_gens (fupd (gens s) k (S (gens s k))) s.

  (* _handle_notifications; [with_preparer] = the `preparer` argument is given *)
  Definition handle_notifications (k : nat) (deps : list nat) (started finished : nat)
             (with_preparer : bool) (s : state) : state :=
    let s1 := set_ptimes (fupd (ptimes s) k (Some started)) s in
    let s2 := subscribe_only_to k deps s1 in
    let s3 := bump k (notify k finished s2) in
    match deps, with_preparer, rtasks s3 k with
    | _ :: _, true, None => create_task k s3
    | _, _, _ => s3
    end.

  Definition raise_bound (k : nat) (deps : list nat) (s : state) : state :=
    set_bound (Nat.max (bound s) (S (list_max (k :: deps)))) s.

  (* prepare_and_cache *)
  Definition offer (k v : nat) (deps : list nat) (s : state) : state :=
    let hit := match cache s k with
               | Some e => Nat.eqb (c_version e) v
               | None => false
               end in
    if hit then s
    else
      let s0 := raise_bound k deps s in
      let s1 := tick s0 in
      let started := clock s1 in
      let s2 := snd (register k s1) in
      let seen := seen_now deps s2 in
      let s3 := tick s2 in
      let finished := clock s3 in
      let s4 := set_cache (fupd (cache s3) k (Some (mkC v deps seen))) s3 in
      handle_notifications k deps started finished true s4.

  (* task.cancel() *)
  Definition cancel (tid : nat) (s : state) : state :=
    let t := tasks s tid in
    match t_status t with
    | TDone => s
    | TNew | TRunning | TWoken => upd_task tid with_cancel s     (* _must_cancel *)
    | TWaiting =>                                                (* getter.cancel() *)
        let s1 := upd_task tid (fun t => with_cancel (with_status TWoken t)) s in
        let s2 := match t_queue t with
                  | Some q => upd_queue q (fun Q => mkQ (q_items Q) (q_shut Q) None) s1
                  | None => s1
                  end in
        call_soon (HWake tid) s2
    end.

  (* delete_from_cache (version=None) *)
  Definition delete (k : nat) (s : state) : state :=
    match cache s k with
    | None => s
    | Some _ =>
        let s1 := tick s in
        let deleted_at := clock s1 in
        let s2 := set_cache (fupd (cache s1) k None) s1 in
        let s3 := kill_resource k s2 in
        let s4 := bump k (deregister k deleted_at s3) in
        match rtasks s4 k with
        | None => s4
        | Some tid => cancel tid (set_rtasks (fupd (rtasks s4) k None) s4)
        end
    end.

  (* _reprepare_and_update_cache *)
  Definition reprepare (k : nat) (s : state) : state :=
    match cache s k with
    | None => s
    | Some e =>
        let s1 := tick s in
        let started := clock s1 in
        let seen := seen_now (c_deps e) s1 in
        let s2 := tick s1 in
        let finished := clock s2 in
        let s3 := set_cache (fupd (cache s2) k (Some (mkC (c_version e) (c_deps e) seen))) s2 in
        handle_notifications k (c_deps e) started finished false s3
    end.

  (* the coroutine returns (or CancelledError escapes it before it started):
     the task is done and its done-callbacks are scheduled *)
  Definition finish (tid : nat) (cancelled : bool) (s : state) : state :=
    call_soon (HDoneCb tid) (upd_task tid (ended cancelled) s).

  (* `await queue.get()` finds the queue empty and not shut down *)
  Definition suspend (tid q : nat) (s : state) : state :=
    if t_cancel (tasks s tid) then
      (* _must_cancel was set while running: the new getter is cancelled at once *)
      call_soon (HWake tid) (upd_task tid (with_status TWoken) s)
    else
      match q_getter (heap s q) with
      | Some _ => set_err EGetter s
      | None =>
          upd_task tid (with_status TWaiting)
            (upd_queue q (fun Q => mkQ (q_items Q) (q_shut Q) (Some tid)) s)
      end.

  (* the `while True` loop of _monitor_and_reprepare, entered at `queue.get()`
     with the task running; it takes every event that is available without
     suspending *)
  Fixpoint monitor_loop (fuel : nat) (tid q : nat) (s : state) : state :=
    match fuel with
    | 0 => set_err EFuel s
    | S f =>
        let Q := heap s q in
        match q_items Q with
        | [] => if q_shut Q then finish tid false s      (* QueueShutDown -> break *)
                else suspend tid q s
        | e :: rest =>
            let s1 := upd_queue q (fun Q => mkQ rest (q_shut Q) (q_getter Q)) s in
            match e with
            | EKill => finish tid false s1
            | ERes _ t =>
                let k := t_key (tasks s1 tid) in
                match ptimes s1 k with
                | None => set_err EBadHandle s1           (* KeyError: unreachable *)
                | Some p =>
                    if t <=? p then monitor_loop f tid q s1
                    else monitor_loop f tid q (reprepare k s1)
                end
            end
        end
    end.

  Definition monitor (tid q : nat) (s : state) : state :=
    monitor_loop (S (List.length (q_items (heap s q)))) tid q s.

  (* one handle of the ready queue *)
  Definition run_handle (h : handle) (s : state) : state :=
    match h with
    | HStart tid =>
        let t := tasks s tid in
        match t_status t with
        | TNew =>
            if t_cancel t then finish tid true s          (* ends cancelled, body never runs *)
            else
              let s1 := upd_task tid (with_status TRunning) s in
              let (q, s2) := register (t_key t) s1 in
              monitor tid q (upd_task tid (with_queue q) s2)
        | _ => set_err EBadHandle s
        end
    | HWake tid =>
        let t := tasks s tid in
        match t_status t with
        | TWoken =>
            if t_cancel t then finish tid false s         (* CancelledError caught: break *)
            else match t_queue t with
                 | Some q => monitor tid q (upd_task tid (with_status TRunning) s)
                 | None => set_err EBadHandle s
                 end
        | _ => set_err EBadHandle s
        end
    | HDoneCb tid =>                                       (* _deletor's do_delete *)
        let k := t_key (tasks s tid) in
        match rtasks s k with
        | Some tid' =>
            if Nat.eqb tid' tid then
              let s1 := tick (set_rtasks (fupd (rtasks s) k None) s) in
              deregister k (clock s1) s1
            else s
        | None => s
        end
    end.

  (* run the first [n] handles of the ready queue *)
  Fixpoint run_handles (n : nat) (s : state) : state :=
    match n with
    | 0 => s
    | S m =>
        match ready s with
        | [] => s
        | h :: r => run_handles m (run_handle h (set_ready r s))
        end
    end.

  (* await asyncio.sleep(0) in the driver *)
  Definition yield (s : state) : state := run_handles (List.length (ready s)) s.

  Definition step (s : state) (o : op) : state :=
    match err s with
    | Some _ => s
    | None =>
        match o with
        | Offer k v deps => offer k v deps s
        | Delete k => delete k s
        | Yield => yield s
        end
    end.

  Definition run (ops : list op) : state := fold_left step ops init.
End WithOrd.
