(* Workflow.v — model of src/koreo/workflow/reconcile.py:
   reconcile_workflow, _reconcile_steps, _reconcile_step, _reconcile_ref_switch,
   _reconcile_step_logic, _for_each_reconciler, _outcome_encoder,
   _condition_helper, over the structures of workflow/structure.py as
   workflow/prepare.py builds them.

   What is modelled and what is not
   * Step expressions (inputs, skipIf, forEach.itemIn, refSwitch.switchOn,
     state) are terms of a small language [expr] which this file evaluates
     itself; the harness prints the same term as real CEL source, so the real
     encoder / celpy / extractor are in the loop of the correspondence check.
   * The semantics of a Function is abstract: [fn_sem : fid -> json -> fres]
     (outcome, resource id, API calls) — a Section variable.  That it is a
     function of the inputs only is the model's form of "fault-free API, steps
     act on pairwise distinct objects" (see Sched.v / notes/C02.md).
   * Message / location prose of outcomes is NOT modelled (class and Retry
     delay are); a skip outcome encoded into a forEach result list
     (_outcome_encoder: f"{outcome}") is the tag string "<Skip>" / "<DepSkip>"
     (the harness canonicalises the real strings to the same tags).
   * Step Logic never returns a result.Ok *object* (ValueFunction,
     ResourceFunction and sub-workflow steps return bare values or non-Ok
     outcomes), so the `case result.Ok(data=data)` arms are dead and a step
     outcome is [SVal v | SNon class].
   * Timeouts / task failures: Faults.v (C09).  Here every task finishes.
   * The run is SEQUENTIAL in listed order; Sched.v proves that every
     completion order gives the same result (C02).
   Proof-free: see proofs/Workflow_proofs.v. *)
From Koreo Require Export Json Outcome.
Local Open Scope list_scope.

(* ------------------------------------------------------------------ *)
(* expressions                                                          *)
(* ------------------------------------------------------------------ *)

Inductive expr :=
| EConst (v : json)                      (* a literal *)
| EStep (l : string) (p : list string)   (* =steps.l.p1.p2…   *)
| EParent (p : list string)              (* =parent.p1.p2…    *)
| EInputs (p : list string)              (* =inputs.p1…  (switchOn only) *)
| EValue (p : list string)               (* =value.p1…   (state only)    *)
| EErr                                   (* =1/0                          *)
| EList (es : list expr)
| EMap (kvs : list (string * expr))
| EHas (l : string) (p : list string) (d : expr)
      (* =has(steps.l.p) ? steps.l.p : d   — celpy: has() is false whenever the path does not resolve *)
| EFlatten (e : expr)                    (* =flatten(e): koreo helper, list of lists -> list *)
| EUse (args : list expr) (keep : expr)
| EStepsAll                              (* =steps         the WHOLE map handed to the step *)
| EStepsSize                             (* =size(steps)   *)
| EStepsIn (l : string).                 (* ="l" in steps  *)
      (* `steps` is only bound when the step has dependencies (the no-dependency branch of
         _reconcile_step passes {parent} only); with dependencies and an open gate it is non-empty *)
      (* =[helper(args…), keep][1]: a koreo CEL helper (overlay, to_json, lower, split, flatten) is applied
         to the arguments and its result discarded; the harness only generates applications that succeed
         whenever the arguments evaluate *)

Record env := { e_steps : list (string * json);   (* ok_outcomes *)
                e_parent : json;                  (* trigger *)
                e_inputs : option json;
                e_value : option json }.

Fixpoint get_path (v : json) (p : list string) : option json :=
  match p with
  | [] => Some v
  | k :: r => match v with
              | JMap kvs => match lookup k kvs with
                            | Some x => get_path x r
                            | None => None
                            end
              | _ => None
              end
  end.

(* None = the evaluation fails (koreo: evaluate(...) -> PermFail) *)
Fixpoint eval (e : expr) (en : env) {struct e} : option json :=
  match e with
  | EConst v => Some v
  | EStep l p => match lookup l (e_steps en) with
                 | Some v => get_path v p
                 | None => None
                 end
  | EParent p => get_path (e_parent en) p
  | EInputs p => match e_inputs en with Some v => get_path v p | None => None end
  | EValue p => match e_value en with Some v => get_path v p | None => None end
  | EErr => None
  | EList es =>
      match (fix go (l : list expr) : option (list json) :=
               match l with
               | [] => Some []
               | x :: r => match eval x en, go r with
                           | Some v, Some vs => Some (v :: vs)
                           | _, _ => None
                           end
               end) es with
      | Some vs => Some (JList vs)
      | None => None
      end
  | EMap kvs =>
      match (fix go (l : list (string * expr)) : option (list (string * json)) :=
               match l with
               | [] => Some []
               | (k, x) :: r => match eval x en, go r with
                                | Some v, Some vs => Some ((k, v) :: vs)
                                | _, _ => None
                                end
               end) kvs with
      | Some vs => Some (JMap vs)
      | None => None
      end
  | EHas l p d =>
      match lookup l (e_steps en) with
      | Some v => match get_path v p with
                  | Some x => Some x
                  | None => eval d en
                  end
      | None => eval d en
      end
  | EFlatten e' =>
      match eval e' en with
      | Some (JList xs) =>
          (fix go (l : list json) : option json :=
             match l with
             | [] => Some (JList [])
             | JList ys :: r => match go r with
                                | Some (JList zs) => Some (JList (ys ++ zs))
                                | _ => None
                                end
             | _ :: _ => None        (* not generated: elements are always lists *)
             end) xs
      | _ => None
      end
  | EStepsAll => match e_steps en with [] => None | m => Some (JMap m) end
  | EStepsSize => match e_steps en with [] => None | m => Some (JInt (Z.of_nat (List.length m))) end
  | EStepsIn l => match e_steps en with [] => None | m => Some (JBool (mem_str l (map fst m))) end
  | EUse args keep =>
      match (fix go (l : list expr) : bool :=
               match l with
               | [] => true
               | x :: r => match eval x en with Some _ => go r | None => false end
               end) args with
      | true => eval keep en
      | false => None
      end
  end.

(* ------------------------------------------------------------------ *)
(* outcomes of steps                                                    *)
(* ------------------------------------------------------------------ *)

Inductive nonok := NDepSkip | NSkip | NRetry (d : Z) | NPermFail.
Inductive sout := SVal (v : json) | SNon (o : nonok).

Definition nonok_outcome (o : nonok) : outcome json :=
  match o with
  | NDepSkip => DepSkip None None
  | NSkip => Skip None None
  | NRetry d => Retry d None None
  | NPermFail => PermFail None None
  end.

Definition to_u (s : sout) : uoutcome json :=
  match s with SVal v => UVal v | SNon o => UOut (nonok_outcome o) end.

(* back from result.combine / unwrapped_combine's outcome (messages dropped) *)
Definition of_outcome (o : outcome json) : sout :=
  match o with
  | DepSkip _ _ => SNon NDepSkip
  | Skip _ _ => SNon NSkip
  | Retry d _ _ => SNon (NRetry d)
  | PermFail _ _ => SNon NPermFail
  | Ok (Single v) _ => SVal v
  | Ok (Many vs) _ => SVal (JList vs)
  end.

Definition sout_ok (s : sout) : bool := match s with SVal _ => true | SNon _ => false end.
Definition sout_error (s : sout) : bool :=
  match s with SNon (NRetry _) | SNon NPermFail => true | _ => false end.

(* _outcome_encoder on a non-error outcome *)
Definition encode_outcome (s : sout) : json :=
  match s with
  | SVal v => v
  | SNon NSkip => JStr "<Skip>"
  | SNon NDepSkip => JStr "<DepSkip>"
  | SNon (NRetry _) => JStr "<Retry>"         (* not reached: errors are combined instead *)
  | SNon NPermFail => JStr "<PermFail>"
  end.

(* _condition_helper: reason *)
Definition reason_of_nonok (o : nonok) : string :=
  match o with
  | NDepSkip => "DepSkip" | NSkip => "Skip" | NRetry _ => "Wait" | NPermFail => "Failure"
  end.
Definition reason_of (s : sout) : string :=
  match s with SVal _ => "Ready" | SNon o => reason_of_nonok o end.

(* ------------------------------------------------------------------ *)
(* functions, invocations, resource ids                                 *)
(* ------------------------------------------------------------------ *)

Definition fid := string.
Definition call := (string * string)%type.            (* method, object name *)

Record fres := { f_out : sout; f_rid : option json; f_calls : list call }.

Inductive target := TgFn (f : fid) | TgSub (name : string).
Definition pseg := (string * option nat)%type.         (* step label, forEach index *)

(* one evaluation of a Function or sub-workflow, with the inputs it received *)
Record inv := { i_path : list pseg; i_tgt : target; i_inputs : json; i_calls : list call }.

Inductive rids :=
| RNone                                     (* None *)
| RRes (id : json)                          (* a ResourceFunction's resource id *)
| RMany (l : list rids)                     (* forEach *)
| RWf (name : string) (m : list (string * rids))   (* {"workflow":…, "resources":{…}} *)
| REmpty.                                   (* {} of a workflow whose steps are not ready *)

Record lres := { r_out : sout; r_rids : rids; r_trace : list inv }.

Definition mk (o : sout) : lres := {| r_out := o; r_rids := RNone; r_trace := [] |}.

Definition push (seg : pseg) (i : inv) : inv :=
  {| i_path := seg :: i_path i; i_tgt := i_tgt i; i_inputs := i_inputs i; i_calls := i_calls i |}.

Definition push_l (seg : pseg) (r : lres) : lres :=
  {| r_out := r_out r; r_rids := r_rids r; r_trace := map (push seg) (r_trace r) |}.

(* ------------------------------------------------------------------ *)
(* structure.Step / ErrorStep / LogicSwitch / Workflow                  *)
(* ------------------------------------------------------------------ *)

Inductive logic :=
| LFn (f : fid)                                        (* Value/ResourceFunction *)
| LSub (name : string) (ready : option nonok) (steps : list step)   (* structure.Workflow *)
| LSwitch (on : expr) (cases : list (string * logic)) (dflt : option logic)
| LErr (o : nonok)                                     (* ErrorStep.outcome *)
with step :=
| mkStep (label : string)
         (deps : list string)                          (* dynamic_input_keys *)
         (inputs : option (list (string * expr)))
         (skip_if : option expr)
         (for_each : option (expr * string))           (* itemIn, inputKey *)
         (lg : logic)
         (cond : option (string * string))             (* type, name *)
         (state : option (list (string * expr))).

Definition s_label (s : step) := match s with mkStep l _ _ _ _ _ _ _ => l end.
Definition s_deps (s : step) := match s with mkStep _ d _ _ _ _ _ _ => d end.
Definition s_inputs (s : step) := match s with mkStep _ _ i _ _ _ _ _ => i end.
Definition s_skip (s : step) := match s with mkStep _ _ _ k _ _ _ _ => k end.
Definition s_foreach (s : step) := match s with mkStep _ _ _ _ f _ _ _ => f end.
Definition s_logic (s : step) := match s with mkStep _ _ _ _ _ g _ _ => g end.
Definition s_cond (s : step) := match s with mkStep _ _ _ _ _ _ c _ => c end.
Definition s_state (s : step) := match s with mkStep _ _ _ _ _ _ _ t => t end.

Definition is_error_step (s : step) : bool :=
  match s_logic s with LErr _ => true | _ => false end.

(* the Result tuple of reconcile_workflow, plus per-step outcomes and the trace *)
Record wres := { w_result : uresult json;
                 w_outcomes : list (string * sout);
                 w_conds : list (string * string);        (* type, reason *)
                 w_state : list (string * json);
                 w_state_errs : list string;              (* keys of state_errors *)
                 w_rids : rids;
                 w_trace : list inv }.

(* ------------------------------------------------------------------ *)
(* _reconcile_step up to the evaluation of Logic                        *)
(* ------------------------------------------------------------------ *)

Inductive gate_res := GBlocked (d : string) | GOpen (oks : list (string * json)).

(* lines 315-358: dependency outcomes in `dependencies` order; the first
   non-Ok one decides; ok_outcomes holds exactly the dependencies' values.
   [lookup d done = None] cannot happen when [deps_closed] (checked by
   run_wf_g before any step runs: there the Python raises KeyError). *)
Fixpoint gate (deps : list string) (done : list (string * lres)) : gate_res :=
  match deps with
  | [] => GOpen []
  | d :: r =>
      match lookup d done with
      | None => GBlocked d
      | Some lr =>
          match r_out lr with
          | SNon _ => GBlocked d
          | SVal v => match gate r done with
                      | GOpen oks => GOpen ((d, v) :: oks)
                      | b => b
                      end
          end
      end
  end.

Definition step_env (oks : list (string * json)) (parent : json) : env :=
  {| e_steps := oks; e_parent := parent; e_inputs := None; e_value := None |}.

Definition eval_inputs (i : option (list (string * expr))) (en : env) : option json :=
  match i with
  | None => Some (JMap [])                (* `if not step.inputs: inputs = MapType()` *)
  | Some m => eval (EMap m) en
  end.

Inductive skip_res := SkNone | SkErr | SkBad | SkBool (b : bool).

Definition eval_skip (k : option expr) (en : env) : skip_res :=
  match k with
  | None => SkNone
  | Some e => match eval e en with
              | None => SkErr
              | Some (JBool b) => SkBool b
              | Some _ => SkBad
              end
  end.

(* iterated_inputs = deepcopy(inputs); iterated_inputs[input_key] = item *)
Definition set_input (key : string) (item inputs : json) : json :=
  match inputs with
  | JMap kvs => JMap (set_key key item kvs)
  | other => other                          (* inputs is always a map *)
  end.

Inductive plan :=
| PDone (r : lres)                          (* decided without evaluating Logic *)
| PCall (inputs : json) (en : env)          (* evaluate Logic once *)
| PEach (iterated : list json) (en : env).  (* evaluate Logic once per element (non-empty) *)

Definition step_plan (s : step) (parent : json) (done : list (string * lres)) : plan :=
  match s_logic s with
  | LErr o => PDone (mk (SNon o))                             (* ErrorStep: line 244 *)
  | _ =>
      match gate (s_deps s) done with
      | GBlocked _ => PDone (mk (SNon NDepSkip))
      | GOpen oks =>
          let en := step_env oks parent in
          match eval_inputs (s_inputs s) en with
          | None => PDone (mk (SNon NPermFail))
          | Some inputs =>
              match eval_skip (s_skip s) en with
              | SkErr | SkBad => PDone (mk (SNon NPermFail))
              | SkBool true => PDone (mk (SNon NSkip))
              | SkNone | SkBool false =>
                  match s_foreach s with
                  | None => PCall inputs en
                  | Some (it, key) =>
                      match eval it en with
                      | None => PDone (mk (SNon NPermFail))
                      | Some (JList []) => PDone (mk (SVal (JList [])))
                      | Some (JList items) =>
                          PEach (map (fun item => set_input key item inputs) items) en
                      | Some _ => PDone (mk (SNon NPermFail))
                      end
                  end
              end
          end
      end
  end.

(* _for_each_reconciler lines 616-669 on the per-item results, in source order *)
Definition foreach_assemble (rs : list lres) : lres :=
  let outs := map r_out rs in
  let errs := filter sout_error outs in
  let err := of_outcome (combine (map (fun s => match s with
                                               | SNon o => nonok_outcome o
                                               | SVal v => Ok (Single v) None
                                               end) errs)) in
  {| r_out := if sout_error err then err else SVal (JList (map encode_outcome outs));
     r_rids := RMany (map r_rids rs);
     r_trace := List.concat (map r_trace rs) |}.

Section Mapi.
  Context {A B : Type}.
  Variable f : nat -> A -> B.
  Fixpoint mapi_from (n : nat) (l : list A) : list B :=
    match l with
    | [] => []
    | x :: r => f n x :: mapi_from (S n) r
    end.
  Definition mapi (l : list A) : list B := mapi_from 0%nat l.
End Mapi.

Section Generic.
(* how Logic is evaluated (run_logic below ties the knot) *)
Variable rl : logic -> json -> env -> lres.

(* _reconcile_step, given how Logic is evaluated *)
Definition run_step_g (s : step) (parent : json)
           (done : list (string * lres)) : lres :=
  match step_plan s parent done with
  | PDone r => r
  | PCall inputs en => push_l (s_label s, None) (rl (s_logic s) inputs en)
  | PEach its en =>
      foreach_assemble
        (mapi (fun idx inp => push_l (s_label s, Some idx) (rl (s_logic s) inp en)) its)
  end.

(* the steps in listed order; [done] maps the labels finished so far *)
Fixpoint run_steps_g (ss : list step) (parent : json)
         (done : list (string * lres)) : list (string * lres) :=
  match ss with
  | [] => done
  | s :: r => run_steps_g r parent (done ++ [(s_label s, run_step_g s parent done)])
  end.
End Generic.

(* ------------------------------------------------------------------ *)
(* _reconcile_steps lines 146-218 and reconcile_workflow                *)
(* ------------------------------------------------------------------ *)

Definition update_state (st : list (string * json)) (m : list (string * json)) :=
  fold_left (fun acc kv => set_key (fst kv) (snd kv) acc) m st.

Definition value_env (v : json) : env :=
  {| e_steps := []; e_parent := JNull; e_inputs := None; e_value := Some v |}.

(* state and state_errors, filled in listed step order *)
Fixpoint collect_state (l : list (step * lres)) (st : list (string * json)) (errs : list string)
  : list (string * json) * list string :=
  match l with
  | [] => (st, errs)
  | (s, r) :: rest =>
      match s_state s, r_out r with
      | Some m, SVal v =>
          match eval (EMap m) (value_env v) with
          | Some (JMap kvs) => collect_state rest (update_state st kvs) errs
          | _ => collect_state rest st (errs ++ [s_label s])
          end
      | _, _ => collect_state rest st errs
      end
  end.

Fixpoint collect_conds (l : list (step * lres)) : list (string * string) :=
  match l with
  | [] => []
  | (s, r) :: rest =>
      match s_cond s with
      | Some (ty, _) => (ty, reason_of (r_out r)) :: collect_conds rest
      | None => collect_conds rest
      end
  end.

Definition reason_of_result (u : uresult json) : string :=
  match u with UList _ => "Ready" | UNon o => reason_of (of_outcome o) end.

Definition assemble (name : string) (steps : list step) (done : list (string * lres)) : wres :=
  let zipped := List.combine steps (map snd done) in
  let overall := unwrapped_combine (map (fun lr => to_u (r_out (snd lr))) done) in
  let '(st, errs) := collect_state zipped [] [] in
  {| w_result := overall;
     w_outcomes := map (fun lr => (fst lr, r_out (snd lr))) done;
     w_conds := collect_conds zipped ++ [("Ready", reason_of_result overall)];
     w_state := st;
     w_state_errs := errs;
     w_rids := RWf name (map (fun lr => (fst lr, r_rids (snd lr))) done);
     w_trace := List.concat (map (fun lr => r_trace (snd lr)) done) |}.

(* every dependency names an EARLIER step (what prepare guarantees, C14);
   otherwise `task_map[dependency]` raises KeyError inside the TaskGroup *)
Fixpoint deps_closed_from (seen : list string) (ss : list step) : bool :=
  match ss with
  | [] => true
  | s :: r => forallb (fun d => mem_str d seen) (if is_error_step s then [] else s_deps s)
              && deps_closed_from (seen ++ [s_label s]) r
  end.
Definition deps_closed (ss : list step) : bool := deps_closed_from [] ss.

(* the steps created before the KeyError: all of them are cancelled before
   they start (TaskGroup abort) and reported as the timeout Retry *)
Fixpoint created_before_keyerror (seen : list string) (ss : list step) : list step :=
  match ss with
  | [] => []
  | s :: r =>
      if forallb (fun d => mem_str d seen) (if is_error_step s then [] else s_deps s)
      then s :: created_before_keyerror (seen ++ [s_label s]) r
      else []
  end.

Definition TIMEOUT_RETRY_DELAY : Z := 30.

Definition aborted (name : string) (steps : list step) : wres :=
  let created := created_before_keyerror [] steps in
  let outs := map (fun s => (s_label s, SNon (NRetry TIMEOUT_RETRY_DELAY))) created in
  let overall := unwrapped_combine (map (fun lo => to_u (snd lo)) outs) in
  {| w_result := overall;
     w_outcomes := outs;
     w_conds := map (fun _ => ("Ready", "Wait")) created ++ [("Ready", reason_of_result overall)];
     w_state := [];
     w_state_errs := [];
     w_rids := RWf name (map (fun s => (s_label s, RNone)) created);
     w_trace := [] |}.

Definition not_ready (o : nonok) : wres :=
  {| w_result := UNon (nonok_outcome o);
     w_outcomes := [];
     w_conds := [("Ready", reason_of_nonok o)];
     w_state := [];
     w_state_errs := [];
     w_rids := REmpty;
     w_trace := [] |}.

(* reconcile_workflow, given how Logic is evaluated *)
Definition run_wf_g (rl : logic -> json -> env -> lres) (name : string) (ready : option nonok)
           (steps : list step) (trigger : json) : wres :=
  match ready with
  | Some o => not_ready o                   (* `if not is_ok(workflow.steps_ready)` *)
  | None =>
      if deps_closed steps
      then assemble name steps (run_steps_g rl steps trigger [])
      else aborted name steps
  end.

(* logic_map.get(switch_value, default_logic): the LAST entry with that key
   (dict assignment overwrites), else the default *)
Fixpoint find_case (v : string) (cases : list (string * logic)) : option logic :=
  match cases with
  | [] => None
  | (k, lg) :: r => match find_case v r with
                    | Some x => Some x
                    | None => if String.eqb k v then Some lg else None
                    end
  end.

Inductive switch_sel := SwErr | SwBad | SwStr (v : string) | SwInt.

(* switchOn sees inputs + steps + parent *)
Definition eval_switch (on : expr) (inputs : json) (en : env) : switch_sel :=
  match eval on {| e_steps := e_steps en; e_parent := e_parent en;
                   e_inputs := Some inputs; e_value := None |} with
  | None => SwErr
  | Some (JStr v) => SwStr v
  | Some (JInt _) => SwInt          (* an int never equals one of the (string) case keys *)
  | Some _ => SwBad
  end.

Definition select_case (on : expr) (cases : list (string * logic)) (dflt : option logic)
           (inputs : json) (en : env) : option logic :=
  match eval_switch on inputs en with
  | SwErr | SwBad => None
  | SwStr v => match find_case v cases with Some lg => Some lg | None => dflt end
  | SwInt => dflt
  end.

Section Run.
  Variable fn_sem : fid -> json -> fres.

  (* _reconcile_step_logic / _reconcile_ref_switch / nested reconcile_workflow *)
  Fixpoint run_logic (lg : logic) (inputs : json) (en : env) {struct lg} : lres :=
    match lg with
    | LFn f =>
        let r := fn_sem f inputs in
        {| r_out := f_out r;
           r_rids := match f_rid r with Some j => RRes j | None => RNone end;
           r_trace := [ {| i_path := []; i_tgt := TgFn f; i_inputs := inputs; i_calls := f_calls r |} ] |}
    | LSub name ready steps =>
        let w := run_wf_g run_logic name ready steps inputs in
        {| r_out := match w_result w with
                    | UList _ => SVal (JMap (w_state w))      (* Ok: the sub-workflow's STATE *)
                    | UNon o => of_outcome o
                    end;
           r_rids := w_rids w;
           r_trace := {| i_path := []; i_tgt := TgSub name; i_inputs := inputs; i_calls := [] |}
                      :: w_trace w |}
    | LSwitch on cases dflt =>
        match eval_switch on inputs en with
        | SwErr | SwBad => mk (SNon NPermFail)
        | SwStr v =>
            match (fix pick (cs : list (string * logic)) : option lres :=
                     match cs with
                     | [] => None
                     | (k, lg') :: r =>
                         match pick r with
                         | Some x => Some x
                         | None => if String.eqb k v then Some (run_logic lg' inputs en) else None
                         end
                     end) cases with
            | Some r => r
            | None => match dflt with
                      | Some lg' => run_logic lg' inputs en
                      | None => mk (SNon NPermFail)
                      end
            end
        | SwInt => match dflt with
                   | Some lg' => run_logic lg' inputs en
                   | None => mk (SNon NPermFail)
                   end
        end
    | LErr o => mk (SNon o)
    end.

  Definition run_step := run_step_g run_logic.
  Definition run_steps := run_steps_g run_logic.

  (* reconcile_workflow(workflow=(name, steps_ready, steps), trigger) *)
  Definition run_workflow (name : string) (ready : option nonok) (steps : list step)
             (trigger : json) : wres :=
    run_wf_g run_logic name ready steps trigger.
End Run.

(* API calls of a run, attributed to the invocation that made them *)
Definition calls_of (tr : list inv) : list (list pseg * call) :=
  flat_map (fun i => map (fun c => (i_path i, c)) (i_calls i)) tr.
