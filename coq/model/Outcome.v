(* Outcome.v — model of src/koreo/result.py (classes DepSkip/Skip/Ok/Retry/
   PermFail with their [combine] methods, the private _OkData wrapper,
   [combine] and [unwrapped_combine]).  Proof-free: see proofs/Outcome_proofs.v *)
From Koreo Require Export Json.

Section Outcome.
  Variable V : Type.

  (* Ok.data is either a caller's value or the module-private _OkData list *)
  Inductive okdata := Single (v : V) | Many (vs : list V).

  Inductive outcome :=
  | DepSkip (m l : option string)
  | Skip (m l : option string)
  | Ok (d : okdata) (l : option string)
  | Retry (d : Z) (m l : option string)
  | PermFail (m l : option string).

  (* Python `if s:` on an Optional[str] *)
  Definition truthy_os (o : option string) : bool := str_nonempty (opt_text o).

  (* [] ; if a: append a ; if b: append b ; ", ".join(..) *)
  Definition join2 (a b : option string) : option string :=
    Some (join ", " ((if truthy_os a then [opt_text a] else []) ++
                     (if truthy_os b then [opt_text b] else []))).

  (* self.combine(other) *)
  Definition combine2 (self other : outcome) : outcome :=
    match self with
    | DepSkip _ _ => other
    | Skip _ _ => match other with DepSkip _ _ => self | _ => other end
    | Ok d l =>
        match other with
        | DepSkip _ _ | Skip _ _ =>
            match d with
            | Many _ => self
            | Single v => Ok (Many [v]) l
            end
        | Ok d' l' =>
            (* other.data is appended as ONE element; an incoming _OkData
               cannot be represented as a V, so [combine2] is only faithful on
               raw inputs (see [raw]); we flatten defensively. *)
            let incoming := match d' with Single v => [v] | Many vs => vs end in
            let cd := match d with
                      | Many vs => Many (vs ++ incoming)
                      | Single v => Many (v :: incoming)
                      end in
            Ok cd (join2 l l')
        | _ => other
        end
    | Retry d m l =>
        match other with
        | DepSkip _ _ | Skip _ _ | Ok _ _ => self
        | PermFail _ _ => other
        | Retry d' m' l' => Retry (Z.max d d') (join2 m m') (join2 l l')
        end
    | PermFail m l =>
        match other with
        | PermFail m' l' => PermFail (join2 m m') (join2 l l')
        | _ => self
        end
    end.

  (* an outcome a caller of combine can hold: Ok data is never _OkData *)
  Definition raw (o : outcome) : bool :=
    match o with Ok (Many _) _ => false | _ => true end.

  Definition reduce (xs : list outcome) : outcome :=
    fold_left combine2 xs (DepSkip None None).

  (* result.combine *)
  Definition combine (xs : list outcome) : outcome :=
    match xs with
    | [] => Skip None None
    | _ =>
        match reduce xs with
        | Ok (Many vs) l => Ok (Many vs) l       (* Ok(data=values) *)
        | Ok (Single v) l => Ok (Many [v]) l      (* Ok(data=[data]) *)
        | o => o
        end
    end.

  (* result.unwrapped_combine: inputs are bare values or non-Ok outcomes *)
  Inductive uoutcome := UVal (v : V) | UOut (o : outcome).

  Definition wrap (u : uoutcome) : outcome :=
    match u with UVal v => Ok (Single v) None | UOut o => o end.

  (* result: a non-Ok outcome, or the bare list of values *)
  Inductive uresult := UList (vs : list V) | UNon (o : outcome).

  Definition unwrapped_combine (us : list uoutcome) : uresult :=
    match us with
    | [] => UNon (Skip None None)
    | _ =>
        match reduce (map wrap us) with
        | Ok (Many vs) _ => UList vs
        | Ok (Single v) _ => UList [v]
        | o => UNon o
        end
    end.

  (* ---------- observation helpers used by theorems and correspondence ---------- *)

  Definition sev (o : outcome) : nat :=
    match o with
    | DepSkip _ _ => 0 | Skip _ _ => 1 | Ok _ _ => 2 | Retry _ _ _ => 3 | PermFail _ _ => 4
    end%nat.

  Definition msg (o : outcome) : option string :=
    match o with
    | DepSkip m _ | Skip m _ | Retry _ m _ | PermFail m _ => m
    | Ok _ _ => None
    end.

  Definition loc (o : outcome) : option string :=
    match o with
    | DepSkip _ l | Skip _ l | Ok _ l | Retry _ _ l | PermFail _ l => l
    end.

  Definition delay (o : outcome) : option Z :=
    match o with Retry d _ _ => Some d | _ => None end.

  Definition okvalues (o : outcome) : list V :=
    match o with
    | Ok (Single v) _ => [v]
    | Ok (Many vs) _ => vs
    | _ => []
    end.

  Definition is_ok (o : outcome) : bool := match o with Ok _ _ => true | _ => false end.
  Definition is_error (o : outcome) : bool :=
    match o with Retry _ _ _ | PermFail _ _ => true | _ => false end.
End Outcome.

Arguments Single {V}. Arguments Many {V}.
Arguments DepSkip {V}. Arguments Skip {V}. Arguments Ok {V}. Arguments Retry {V}. Arguments PermFail {V}.
Arguments UVal {V}. Arguments UOut {V}. Arguments UList {V}. Arguments UNon {V}.
Arguments combine2 {V}. Arguments combine {V}. Arguments reduce {V}. Arguments unwrapped_combine {V}.
Arguments raw {V}. Arguments sev {V}. Arguments msg {V}. Arguments loc {V}. Arguments delay {V}.
Arguments okvalues {V}. Arguments is_ok {V}. Arguments is_error {V}. Arguments wrap {V}.
Arguments join2 a b : simpl never.
