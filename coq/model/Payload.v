(* Payload.v — model of the payload helpers at the end of
   src/koreo/resource_function/reconcile/__init__.py (line numbers of the
   snapshot the model was reviewed against):
     _strip_koreo_directives  857-870      strip
     _prepare_for_api         841-854      prepare_for_api
     _extract_last_applied    822-838      extract_last_applied_r (faithful), extract_last_applied   [69b5a7d]
     _updated_owner_refs      742-780      updated_owner_refs_r   (faithful), updated_owner_refs
     _validate_owner_reffed   783-819      validate_owner_reffed_r (faithful), validate_owner_reffed
   their two call sites
     _create_api_resource     663-683      create_payload
     reconcile_krm_resource   315-320, 331, 357-365   patch_payload, needs_update
   what kr8s does to a body before POSTing it (APIObject.__init__, .raw)   kr8s_post
   and RFC 7386 merge-patch (what the API server / the harness's in-memory
   cluster does with a PATCH)                                               merge_patch.
   Proof-free.  Values are JSON documents (plain Python dict/list/str/int/
   float/bool/None); celtypes wrappers are outside the model (see notes/C08.md).

   NAMES USED BY OTHER FILES (types are stable): strip, has_directive,
   prepare_for_api, extract_last_applied, updated_owner_refs,
   validate_owner_reffed, reffed_truthy, merge_patch, directive_keys,
   last_applied_key, res/Done/Raised, prepared/body/recorded.
   The three un-suffixed owner/last-applied functions return a plain value and
   therefore cannot show the Python exceptions raised on malformed live
   metadata; the `_r` variants are the line-by-line models (result type [res])
   and `Payload_proofs.v` proves that the un-suffixed ones agree with them
   whenever the `_r` variant is [Done] (lemmas *_r_done). *)
From Koreo Require Export Json.
Local Open Scope list_scope.

(* The constants that DEFINE the property are written here by hand and are
   NOT read from koreo.constants at run time. *)
Definition directive_keys : list string :=
  ["x-koreo-compare-as-set"; "x-koreo-compare-as-map"; "x-koreo-compare-last-applied"].
Definition is_directive (k : string) : bool := mem_str k directive_keys.
Definition last_applied_key : string := "koreo.dev/last-applied-configuration".

(* _strip_koreo_directives: drop directive keys from every map, at any depth,
   through lists too (`case dict()` rebuilds the dict without the directive
   keys, in order; `case list()|set()|tuple()` maps over the items; anything
   else is returned as is). *)
Fixpoint strip (j : json) : json :=
  match j with
  | JList l => JList (map strip l)
  | JMap kvs =>
      JMap ((fix go (l : list (string * json)) : list (string * json) :=
               match l with
               | [] => []
               | (k, v) :: r => if is_directive k then go r else (k, strip v) :: go r
               end) kvs)
  | _ => j
  end.

(* does a directive key occur anywhere? (the property's "at any depth") *)
Fixpoint has_directive (j : json) : bool :=
  match j with
  | JList l => existsb has_directive l
  | JMap kvs =>
      (fix go (l : list (string * json)) : bool :=
         match l with
         | [] => false
         | (k, v) :: r => is_directive k || has_directive v || go r
         end) kvs
  | _ => false
  end.

(* Python exceptions are values.  ExValueError stands for json.JSONDecodeError
   (a ValueError subclass). *)
Inductive exn := ExKeyError | ExTypeError | ExAttributeError | ExValueError.
Inductive res (A : Type) := Done (a : A) | Raised (e : exn).
Arguments Done {A}. Arguments Raised {A}.

Definition bind {A B} (r : res A) (f : A -> res B) : res B :=
  match r with Done a => f a | Raised e => Raised e end.

(* json.dumps is not modelled.  The result of _prepare_for_api is the pair of
   [body] — the object returned, with the annotation entry present under
   metadata.annotations[last_applied_key] carrying the placeholder
   [JStr "<last-applied>"] — and [recorded], the document whose JSON text the
   real code stores there (`dumped = json.dumps(prepared)` is taken BEFORE the
   holder maps and the annotation are added). *)
Record prepared := { body : json; recorded : json }.

Definition annotation_placeholder : json := JStr "<last-applied>".

(* d.setdefault(k, {}) as written in the code: `if k not in d: d[k] = {}` *)
Definition ensure_key (k : string) (kvs : list (string * json)) : list (string * json) :=
  match lookup k kvs with
  | Some _ => kvs
  | None => set_key k (JMap []) kvs
  end.

(* _prepare_for_api(obj).
     prepared = strip(obj); dumped = dumps(prepared)
     if "metadata" not in prepared: prepared["metadata"] = {}
     if "annotations" not in prepared["metadata"]: prepared["metadata"]["annotations"] = {}
     prepared["metadata"]["annotations"][KEY] = dumped
   `in` / item assignment on something that is not a dict raise TypeError for
   every JSON-shaped value (None, bool, int, float: not iterable; str: `in`
   works but item access/assignment raises; list: `in` works, str index raises). *)
Definition prepare_for_api (obj : json) : res prepared :=
  match strip obj with
  | JMap top =>
      let top1 := ensure_key "metadata" top in
      match lookup "metadata" top1 with
      | Some (JMap md) =>
          let md1 := ensure_key "annotations" md in
          match lookup "annotations" md1 with
          | Some (JMap an) =>
              let an1 := set_key last_applied_key annotation_placeholder an in
              let md2 := set_key "annotations" (JMap an1) md1 in
              Done {| body := JMap (set_key "metadata" (JMap md2) top1);
                      recorded := JMap top |}
          | _ => Raised ExTypeError
          end
      | _ => Raised ExTypeError
      end
  | _ => Raised ExTypeError
  end.

(* helpers to STATE the last-applied law (not part of the code) ------------- *)

(* the map stored under [k], if there is one *)
Definition sub_map (k : string) (kvs : list (string * json)) : option (list (string * json)) :=
  match lookup k kvs with Some (JMap m) => Some m | _ => None end.

(* the object with the annotation entry deleted (nothing else touched) *)
Definition remove_annotation (j : json) : json :=
  match j with
  | JMap top =>
      match sub_map "metadata" top with
      | Some md =>
          match sub_map "annotations" md with
          | Some an =>
              JMap (set_key "metadata"
                      (JMap (set_key "annotations" (JMap (del_key last_applied_key an)) md)) top)
          | None => j
          end
      | None => j
      end
  | _ => j
  end.

(* the object with `metadata` / `metadata.annotations` defaulted to {} *)
Definition ensure_holders (j : json) : json :=
  match j with
  | JMap top =>
      let top1 := ensure_key "metadata" top in
      match sub_map "metadata" top1 with
      | Some md => JMap (set_key "metadata" (JMap (ensure_key "annotations" md)) top1)
      | None => j
      end
  | _ => j
  end.

(* the inverse normalisation: an EMPTY annotations map, then an EMPTY metadata
   map, are dropped ("a map that exists only to hold the annotation") *)
Definition drop_empty_holders (j : json) : json :=
  match j with
  | JMap top =>
      match sub_map "metadata" top with
      | Some md =>
          let md' := match lookup "annotations" md with
                     | Some (JMap []) => del_key "annotations" md
                     | _ => md
                     end in
          match md' with
          | [] => JMap (del_key "metadata" top)
          | _ => JMap (set_key "metadata" (JMap md') top)
          end
      | None => j
      end
  | _ => j
  end.

(* the annotation entry as stored *)
Definition annotation_of (j : json) : option json :=
  match j with
  | JMap top =>
      match sub_map "metadata" top with
      | Some md => match sub_map "annotations" md with
                   | Some an => lookup last_applied_key an
                   | None => None
                   end
      | None => None
      end
  | _ => None
  end.

(* _extract_last_applied(resource)   (as repaired by /repo commit 69b5a7d)
     if not resource: return None
     metadata = resource.get("metadata")
     if not metadata or not isinstance(metadata, dict): return None
     annotations = metadata.get("annotations")
     if not annotations or not isinstance(annotations, dict): return None
     last_applied = annotations.get(KEY);       if not last_applied: return None
     return json.loads(last_applied)
   `resource.get` on a truthy non-dict live object raises AttributeError; a
   truthy non-dict metadata / annotations now reads as "no last-applied";
   json.loads of a non-str raises TypeError, of a str that is not JSON raises
   JSONDecodeError.  json.loads itself is not modelled: [ann] is what it
   returns on the stored text ([None] = the text does not parse).  The Python
   result None is [None] (so the text "null" gives [None] too). *)
Definition get_r (k : string) (j : json) : res (option json) :=
  match j with
  | JMap kvs => Done (lookup k kvs)
  | _ => Raised ExAttributeError
  end.

Definition opt_truthy (o : option json) : bool :=
  match o with Some v => py_truthy v | None => false end.

(* the `.get` of a holder is guarded by
   `if not x or not isinstance(x, dict): return None`, so it cannot raise *)
Definition extract_last_applied_r (live : json) (ann : option json) : res (option json) :=
  if negb (py_truthy live) then Done None else
  bind (get_r "metadata" live) (fun md =>
  match md with
  | None => Done None
  | Some md =>
  if negb (py_truthy md) then Done None else
  match md with
  | JMap _ =>
  bind (get_r "annotations" md) (fun an =>
  match an with
  | None => Done None
  | Some an =>
  if negb (py_truthy an) then Done None else
  match an with
  | JMap _ =>
  bind (get_r last_applied_key an) (fun la =>
  match la with
  | None => Done None
  | Some la =>
  if negb (py_truthy la) then Done None else
  match la with
  | JStr _ =>
      match ann with
      | Some JNull => Done None
      | Some doc => Done (Some doc)
      | None => Raised ExValueError
      end
  | _ => Raised ExTypeError
  end end)
  | _ => Done None            (* not isinstance(annotations, dict) *)
  end end)
  | _ => Done None            (* not isinstance(metadata, dict) *)
  end end).

(* exception-free view (stable type): every raising case reads as "no
   last-applied".  Agrees with [extract_last_applied_r] whenever that is Done. *)
Definition extract_last_applied (live : json) (ann : option json) : option json :=
  match extract_last_applied_r live ann with
  | Done o => o
  | Raised _ => None
  end.

(* owner references -------------------------------------------------------- *)

Definition uid_of (r : json) : option json :=
  match r with JMap kvs => lookup "uid" kvs | _ => None end.

(* current_ref.get("uid") == trigger_uid on two optional values (a missing
   uid is None) *)
Definition uid_eq (a b : option json) : bool :=
  match a, b with
  | Some x, Some y => py_eq x y
  | None, None => true
  | Some JNull, None | None, Some JNull => true
  | _, _ => false
  end.

Definition same_uid (a b : json) : bool := uid_eq (uid_of a) (uid_of b).

(* the loop `for current_ref in owner_refs: if current_ref.get("uid") ==
   trigger_uid: return …` — stops at the first match; an item that is not a
   dict and is reached before a match raises AttributeError. *)
Fixpoint find_ref_r (trigger : option json) (l : list json) : res bool :=
  match l with
  | [] => Done false
  | JMap kvs :: rest =>
      if uid_eq (lookup "uid" kvs) trigger then Done true else find_ref_r trigger rest
  | _ :: _ => Raised ExAttributeError
  end.

(* trigger_uid = owner_ref.get("uid"), then the loop *)
Definition has_owner_r (owner_ref : json) (l : list json) : res bool :=
  match owner_ref with
  | JMap okvs => find_ref_r (lookup "uid" okvs) l
  | _ => Raised ExAttributeError
  end.

Inductive owner_result :=
| OwnerRefs (l : list json)        (* the new ownerReferences list *)
| OwnerPermFail.                   (* PermFail "Missing resource…" / "Corrupt …" *)

(* the common prefix of both functions: the two `match` statements, the
   falsiness test and the isinstance test.  [None] = PermFail; [Some None] =
   "no (or empty) ownerReferences"; [Some (Some l)] = a non-empty list. *)
Definition live_refs (view : json) : option (option (list json)) :=
  match view with
  | JMap top =>
      match lookup "metadata" top with
      | None => None
      | Some (JMap md) =>
          match lookup "ownerReferences" md with
          | None => Some None
          | Some refs =>
              if negb (py_truthy refs) then Some None else
              match refs with
              | JList l => Some (Some l)
              | _ => None
              end
          end
      | Some _ => None
      end
  | _ => None
  end.

(* _updated_owner_refs(resource_view, owner_ref) *)
Definition updated_owner_refs_r (view owner_ref : json) : res owner_result :=
  match live_refs view with
  | None => Done OwnerPermFail
  | Some None => Done (OwnerRefs [owner_ref])
  | Some (Some l) =>
      bind (has_owner_r owner_ref l) (fun found =>
        Done (OwnerRefs (if found then l else l ++ [owner_ref])))
  end.

Inductive reffed_result := Reffed (b : bool) | ReffedPermFail.

(* _validate_owner_reffed(resource_view, owner_ref) *)
Definition validate_owner_reffed_r (view owner_ref : json) : res reffed_result :=
  match live_refs view with
  | None => Done ReffedPermFail
  | Some None => Done (Reffed false)
  | Some (Some l) => bind (has_owner_r owner_ref l) (fun found => Done (Reffed found))
  end.

(* exception-free views (stable types): a reference / owner that is not a map
   reads as "has no uid".  They agree with the `_r` versions whenever those
   are Done. *)
Definition updated_owner_refs (view owner_ref : json) : owner_result :=
  match live_refs view with
  | None => OwnerPermFail
  | Some None => OwnerRefs [owner_ref]
  | Some (Some l) =>
      if existsb (fun r => same_uid r owner_ref) l then OwnerRefs l
      else OwnerRefs (l ++ [owner_ref])
  end.

Definition validate_owner_reffed (view owner_ref : json) : reffed_result :=
  match live_refs view with
  | None => ReffedPermFail
  | Some None => Reffed false
  | Some (Some l) => Reffed (existsb (fun r => same_uid r owner_ref) l)
  end.

(* the caller treats a PermFail object as truthy (PermFail defines no
   __bool__): `if resource_match.match and owner_reffed` / `not owner_reffed` *)
Definition reffed_truthy (r : reffed_result) : bool :=
  match r with Reffed b => b | ReffedPermFail => true end.

(* RFC 7386 JSON merge patch ------------------------------------------------ *)

Fixpoint merge_patch (target patch : json) {struct patch} : json :=
  match patch with
  | JMap pkvs =>
      let base := match target with JMap t => t | _ => [] end in
      JMap ((fix go (l : list (string * json)) (acc : list (string * json)) : list (string * json) :=
               match l with
               | [] => acc
               | (k, v) :: r =>
                   match v with
                   | JNull => go r (del_key k acc)
                   | _ =>
                       let old := match lookup k acc with Some o => o | None => JNull end in
                       go r (set_key k (merge_patch old v) acc)
                   end
               end) pkvs base)
  | _ => patch
  end.

(* the two call sites ------------------------------------------------------- *)

Definition opt_str_eqb (a b : option string) : bool :=
  match a, b with
  | Some x, Some y => String.eqb x y
  | None, None => true
  | _, _ => false
  end.

(* `owned_resource and owner_namespace == namespace`
   ([None] = Python None: a cluster-scoped object / parent) *)
Definition should_own (owned : bool) (owner_ns ns : option string) : bool :=
  owned && opt_str_eqb owner_ns ns.

(* obj["metadata"]["ownerReferences"] = refs *)
Definition set_owner_refs (obj : json) (refs : list json) : res json :=
  match obj with
  | JMap top =>
      match lookup "metadata" top with
      | Some (JMap md) =>
          Done (JMap (set_key "metadata" (JMap (set_key "ownerReferences" (JList refs) md)) top))
      | Some _ => Raised ExTypeError
      | None => Raised ExKeyError
      end
  | _ => Raised ExTypeError
  end.

(* what reaches (or does not reach) the API *)
Inductive sent :=
| NoCall                 (* a PermFail was returned before any API call *)
| Sent (p : prepared).   (* the object handed to kr8s *)

Definition send (obj : json) : res sent :=
  bind (prepare_for_api obj) (fun p => Done (Sent p)).

(* _create_api_resource, lines 663-683, from the final resource_view on
   (convert_bools is the identity on JSON documents) *)
Definition create_payload (owned : bool) (owner_ns ns : option string)
                          (view owner_ref : json) : res sent :=
  if should_own owned owner_ns ns then
    bind (updated_owner_refs_r view owner_ref) (fun r =>
      match r with
      | OwnerPermFail => Done NoCall
      | OwnerRefs l => bind (set_owner_refs view l) send
      end)
  else send view.

(* reconcile_krm_resource, lines 315-320: the owner_reffed value *)
Definition owner_reffed_r (owned : bool) (owner_ns ns : option string)
                          (live owner_ref : json) : res reffed_result :=
  if should_own owned owner_ns ns then validate_owner_reffed_r live owner_ref
  else Done (Reffed true).

(* line 331: `if resource_match.match and owner_reffed: return` (no update) *)
Definition needs_update (matched : bool) (rr : reffed_result) : bool :=
  negb (matched && reffed_truthy rr).

(* lines 357-365: the UpdatePatch branch (reached only when [needs_update]) *)
Definition patch_payload (owned : bool) (owner_ns ns : option string)
                         (live target owner_ref : json) : res sent :=
  bind (owner_reffed_r owned owner_ns ns live owner_ref) (fun rr =>
    if should_own owned owner_ns ns && negb (reffed_truthy rr) then
      bind (updated_owner_refs_r live owner_ref) (fun r =>
        match r with
        | OwnerPermFail => Done NoCall
        | OwnerRefs l => bind (set_owner_refs target l) send
        end)
    else send target).

(* kr8s: APIObject(resource=body, namespace=ns) writes metadata.namespace when
   ns is not None, and `.raw` (read by create()) re-injects kind/apiVersion.
   The body always has a metadata map here (prepare_for_api made sure). *)
Definition kr8s_post (ns : option string) (kind version : string) (b : json) : json :=
  match b with
  | JMap top =>
      let top1 := match ns, sub_map "metadata" top with
                  | Some n, Some md => set_key "metadata" (JMap (set_key "namespace" (JStr n) md)) top
                  | _, _ => top
                  end in
      JMap (set_key "apiVersion" (JStr version) (set_key "kind" (JStr kind) top1))
  | _ => b
  end.

(* the stored object after the cluster applied the PATCH *)
Definition apply_patch (live : json) (s : sent) : json :=
  match s with
  | NoCall => live
  | Sent p => merge_patch live (body p)
  end.

(* metadata.ownerReferences of an object, as a list (absent / not a list = []) *)
Definition owner_refs_of (j : json) : list json :=
  match j with
  | JMap top =>
      match sub_map "metadata" top with
      | Some md => match lookup "ownerReferences" md with Some (JList l) => l | _ => [] end
      | None => []
      end
  | _ => []
  end.

(* specification vocabulary (used by the theorem statements only) ----------- *)

(* "j' is j with directive entries deleted, at any depth, and nothing else
   changed": scalars equal, lists item-wise (same length, same positions),
   maps entry-wise in order, an entry being dropped iff its key is a directive *)
Inductive prunes : json -> json -> Prop :=
| pr_null : prunes JNull JNull
| pr_bool b : prunes (JBool b) (JBool b)
| pr_int z : prunes (JInt z) (JInt z)
| pr_float m e : prunes (JFloat m e) (JFloat m e)
| pr_str s : prunes (JStr s) (JStr s)
| pr_list l l' : prunes_list l l' -> prunes (JList l) (JList l')
| pr_map kvs kvs' : prunes_kvs kvs kvs' -> prunes (JMap kvs) (JMap kvs')
with prunes_list : list json -> list json -> Prop :=
| pl_nil : prunes_list [] []
| pl_cons x x' r r' : prunes x x' -> prunes_list r r' -> prunes_list (x :: r) (x' :: r')
with prunes_kvs : list (string * json) -> list (string * json) -> Prop :=
| pk_nil : prunes_kvs [] []
| pk_drop k v r r' : is_directive k = true -> prunes_kvs r r' -> prunes_kvs ((k, v) :: r) r'
| pk_keep k v v' r r' : is_directive k = false -> prunes v v' -> prunes_kvs r r' ->
                        prunes_kvs ((k, v) :: r) ((k, v') :: r').

(* j[k] and j["metadata"][k] (None when absent or when the holder is not a map) *)
Definition top_lookup (k : string) (j : json) : option json :=
  match j with JMap top => lookup k top | _ => None end.

Definition meta_lookup (k : string) (j : json) : option json :=
  match j with
  | JMap top => match sub_map "metadata" top with Some md => lookup k md | None => None end
  | _ => None
  end.
