(* Payload.v — model of the payload helpers at the end of
   src/koreo/resource_function/reconcile/__init__.py:
   _strip_koreo_directives, _prepare_for_api, _extract_last_applied,
   _updated_owner_refs, _validate_owner_reffed; plus RFC 7386 merge-patch
   (what the API server / the harness's in-memory cluster does with a PATCH).
   Proof-free. *)
From Koreo Require Export Json.
Local Open Scope list_scope.

(* The constants that DEFINE the properties are written here by hand and are
   NOT read from koreo.constants at run time. *)
Definition directive_keys : list string :=
  ["x-koreo-compare-as-set"; "x-koreo-compare-as-map"; "x-koreo-compare-last-applied"].
Definition is_directive (k : string) : bool := mem_str k directive_keys.
Definition last_applied_key : string := "koreo.dev/last-applied-configuration".

(* _strip_koreo_directives: drop directive keys from every map, at any depth,
   through lists too. *)
Fixpoint strip (j : json) : json :=
  match j with
  | JList l => JList (map strip l)
  | JMap kvs =>
      JMap ((fix go (l : list (string * json)) : list (string * json) :=
               match l with
               | [] => []
               | (k, v) :: r => if is_directive k then go r else (k, strip v) :: go r
               end) kvs)
  | _ => j
  end.

(* does a directive key occur anywhere? *)
Fixpoint has_directive (j : json) : bool :=
  match j with
  | JList l => existsb has_directive l
  | JMap kvs =>
      (fix go (l : list (string * json)) : bool :=
         match l with
         | [] => false
         | (k, v) :: r => is_directive k || has_directive v || go r
         end) kvs
  | _ => false
  end.

(* json.dumps of the stripped object is kept abstract as "the JSON text of j":
   the annotation value is modelled as the document itself ([JDoc j] below
   would need a new constructor, so we keep the annotation as a separate
   component): a prepared payload is the object plus the document recorded in
   its last-applied annotation. *)
Inductive exn := ExKeyError | ExTypeError | ExAttributeError.
Inductive res (A : Type) := Done (a : A) | Raised (e : exn).
Arguments Done {A}. Arguments Raised {A}.

(* result of _prepare_for_api: [body] is the object sent, with the annotation
   entry present under metadata.annotations[last_applied_key] carrying the
   placeholder [JStr "<last-applied>"]; [recorded] is the document whose JSON
   text the real code stores there. *)
Record prepared := { body : json; recorded : json }.

Definition annotation_placeholder : json := JStr "<last-applied>".

(* prepared["metadata"] / ["annotations"] handling of _prepare_for_api:
   `if "metadata" not in prepared: prepared["metadata"] = {}` etc.
   Indexing a non-map raises TypeError in Python. *)
Definition prepare_for_api (obj : json) : res prepared :=
  match strip obj with
  | JMap top =>
      let top1 := match lookup "metadata" top with
                  | Some _ => top
                  | None => set_key "metadata" (JMap []) top
                  end in
      match lookup "metadata" top1 with
      | Some (JMap md) =>
          let md1 := match lookup "annotations" md with
                     | Some _ => md
                     | None => set_key "annotations" (JMap []) md
                     end in
          match lookup "annotations" md1 with
          | Some (JMap an) =>
              let an1 := set_key last_applied_key annotation_placeholder an in
              let md2 := set_key "annotations" (JMap an1) md1 in
              Done {| body := JMap (set_key "metadata" (JMap md2) top1);
                      recorded := JMap top |}
          | _ => Raised ExTypeError
          end
      | _ => Raised ExTypeError
      end
  | _ => Raised ExTypeError
  end.

(* _extract_last_applied: the document recorded in the live object's
   annotation, if any.  The harness parses the annotation JSON and hands the
   parsed document to the model as [ann]; the model decides only WHETHER it is
   used (the chain of truthiness tests). *)
Definition extract_last_applied (live : json) (ann : option json) : option json :=
  if negb (py_truthy live) then None else
  match live with
  | JMap top =>
      match lookup "metadata" top with
      | Some (JMap md) =>
          if negb (py_truthy (JMap md)) then None else
          match lookup "annotations" md with
          | Some (JMap an) =>
              if negb (py_truthy (JMap an)) then None else
              match lookup last_applied_key an with
              | Some v => if py_truthy v then ann else None
              | None => None
              end
          | _ => None
          end
      | _ => None
      end
  | _ => None
  end.

(* owner references -------------------------------------------------------- *)

Definition uid_of (r : json) : option json :=
  match r with JMap kvs => lookup "uid" kvs | _ => None end.

(* current_ref.get("uid") == trigger_uid, with None for a missing uid *)
Definition same_uid (a b : json) : bool :=
  match uid_of a, uid_of b with
  | Some x, Some y => py_eq x y
  | None, None => true
  | Some JNull, None | None, Some JNull => true
  | _, _ => false
  end.

Inductive owner_result :=
| OwnerRefs (l : list json)        (* the new ownerReferences list *)
| OwnerPermFail.                   (* PermFail "Missing resource…" / "Corrupt …" *)

(* _updated_owner_refs(resource_view, owner_ref) *)
Definition updated_owner_refs (view owner_ref : json) : owner_result :=
  match view with
  | JMap top =>
      match lookup "metadata" top with
      | None => OwnerPermFail
      | Some (JMap md) =>
          match lookup "ownerReferences" md with
          | None => OwnerRefs [owner_ref]
          | Some refs =>
              if negb (py_truthy refs) then OwnerRefs [owner_ref] else
              match refs with
              | JList l =>
                  if existsb (fun r => same_uid r owner_ref) l then OwnerRefs l
                  else OwnerRefs (l ++ [owner_ref])
              | _ => OwnerPermFail
              end
          end
      | Some _ => OwnerPermFail
      end
  | _ => OwnerPermFail
  end.

Inductive reffed_result := Reffed (b : bool) | ReffedPermFail.

(* _validate_owner_reffed(resource_view, owner_ref) *)
Definition validate_owner_reffed (view owner_ref : json) : reffed_result :=
  match view with
  | JMap top =>
      match lookup "metadata" top with
      | None => ReffedPermFail
      | Some (JMap md) =>
          match lookup "ownerReferences" md with
          | None => Reffed false
          | Some refs =>
              if negb (py_truthy refs) then Reffed false else
              match refs with
              | JList l => Reffed (existsb (fun r => same_uid r owner_ref) l)
              | _ => ReffedPermFail
              end
          end
      | Some _ => ReffedPermFail
      end
  | _ => ReffedPermFail
  end.

(* the caller treats a PermFail object as truthy: `if resource_match.match and owner_reffed` *)
Definition reffed_truthy (r : reffed_result) : bool :=
  match r with Reffed b => b | ReffedPermFail => true end.

(* RFC 7386 JSON merge patch ------------------------------------------------ *)

Fixpoint merge_patch (target patch : json) {struct patch} : json :=
  match patch with
  | JMap pkvs =>
      let base := match target with JMap t => t | _ => [] end in
      JMap ((fix go (l : list (string * json)) (acc : list (string * json)) : list (string * json) :=
               match l with
               | [] => acc
               | (k, v) :: r =>
                   match v with
                   | JNull => go r (del_key k acc)
                   | _ =>
                       let old := match lookup k acc with Some o => o | None => JNull end in
                       go r (set_key k (merge_patch old v) acc)
                   end
               end) pkvs base)
  | _ => patch
  end.
