(* ErrScan.v — values as celpy hands them back (trees with error leaves), the
   recursive error scan and the three evaluation wrappers of
   src/koreo/cel/evaluation.py:

     check_for_celevalerror  (evaluation.py:139-163)  ->  [scan]
     evaluate                (evaluation.py:16-40)    ->  [evaluate]
     evaluate_overlay        (evaluation.py:73-110)   ->  [evaluate_overlay]
     _overlay_applier        (evaluation.py:113-136)  ->  [applier]

   ([evaluate_predicates] needs predicate_to_koreo_result and lives in
   Predicates.v.)  CEL itself is NOT modelled: what [Runner.evaluate] did at a
   site is an input of the model, a [raw] result.  Proof-free; proofs are in
   proofs/ErrScan_proofs.v and proofs/Predicates_proofs.v. *)
From Koreo Require Export Json Outcome.
Local Open Scope list_scope.

(* A Python value as produced by celpy / koreo's custom CEL functions. *)
Inductive vtree : Type :=
| VNull                                  (* None *)
| VBool (b : bool)                       (* BoolType / bool *)
| VInt (z : Z)                           (* IntType / UintType / int *)
| VFloat (m e : Z)                       (* DoubleType: the dyadic m * 2^e *)
| VStr (s : string)                      (* StringType / str *)
| VOther (tag : string)                  (* any other non-container object: bytes, timestamp,
                                            duration, a type object ...; never scanned into *)
| VErr                                   (* a celpy.CELEvalError object *)
| VList (l : list vtree)                 (* ListType / list / tuple *)
| VMap (kvs : list (vtree * vtree)).     (* MapType / dict, insertion ordered; keys are values too *)

Section VtreeInd.
  Variable P : vtree -> Prop.
  Hypothesis Hnull : P VNull.
  Hypothesis Hbool : forall b, P (VBool b).
  Hypothesis Hint : forall z, P (VInt z).
  Hypothesis Hfloat : forall m e, P (VFloat m e).
  Hypothesis Hstr : forall s, P (VStr s).
  Hypothesis Hother : forall t, P (VOther t).
  Hypothesis Herr : P VErr.
  Hypothesis Hlist : forall l, Forall P l -> P (VList l).
  Hypothesis Hmap : forall kvs, Forall (fun kv => P (fst kv) /\ P (snd kv)) kvs -> P (VMap kvs).

  Fixpoint vtree_ind' (v : vtree) : P v :=
    match v with
    | VNull => Hnull
    | VBool b => Hbool b
    | VInt z => Hint z
    | VFloat m e => Hfloat m e
    | VStr s => Hstr s
    | VOther t => Hother t
    | VErr => Herr
    | VList l =>
        Hlist l ((fix go (l : list vtree) : Forall P l :=
                    match l with
                    | [] => Forall_nil _
                    | x :: r => Forall_cons _ (vtree_ind' x) (go r)
                    end) l)
    | VMap kvs =>
        Hmap kvs ((fix go (l : list (vtree * vtree)) :
                     Forall (fun kv => P (fst kv) /\ P (snd kv)) l :=
                     match l with
                     | [] => Forall_nil _
                     | (k, x) :: r => Forall_cons (k, x) (conj (vtree_ind' k) (vtree_ind' x)) (go r)
                     end) kvs)
    end.
End VtreeInd.

(* ---------- check_for_celevalerror ----------
   match value:
     case CELEvalError(): return PermFail
     case MapType() | dict(): for key, sub in items: scan key; scan sub
     case ListType() | list() | tuple(): for sub in value: scan sub
   return None
   [scan v = true] iff a PermFail is returned (which error is reported first is
   message prose and not modelled). *)
Fixpoint scan (v : vtree) : bool :=
  match v with
  | VErr => true
  | VList l => existsb scan l
  | VMap kvs =>
      (fix go (kvs : list (vtree * vtree)) : bool :=
         match kvs with
         | [] => false
         | (k, x) :: r => scan k || scan x || go r
         end) kvs
  | _ => false
  end.

(* structural equality (ordered maps: celpy's MapType is an insertion-ordered dict and
   the harness prints items in iteration order) *)
Fixpoint vtree_eqb (a b : vtree) {struct a} : bool :=
  match a, b with
  | VNull, VNull => true
  | VBool x, VBool y => Bool.eqb x y
  | VInt x, VInt y => Z.eqb x y
  | VFloat m1 e1, VFloat m2 e2 => Z.eqb m1 m2 && Z.eqb e1 e2
  | VStr x, VStr y => String.eqb x y
  | VOther x, VOther y => String.eqb x y
  | VErr, VErr => true
  | VList xs, VList ys =>
      (fix go (xs ys : list vtree) : bool :=
         match xs, ys with
         | [], [] => true
         | x :: xr, y :: yr => vtree_eqb x y && go xr yr
         | _, _ => false
         end) xs ys
  | VMap xs, VMap ys =>
      (fix go (xs ys : list (vtree * vtree)) : bool :=
         match xs, ys with
         | [], [] => true
         | (k, x) :: xr, (k', y) :: yr => vtree_eqb k k' && vtree_eqb x y && go xr yr
         | _, _ => false
         end) xs ys
  | _, _ => false
  end.

(* ---------- dict helpers on maps whose keys are values ---------- *)

Definition key_is (k : string) (v : vtree) : bool :=
  match v with VStr s => String.eqb k s | _ => false end.

(* d.get("k") for a str key *)
Fixpoint vlookup (k : string) (kvs : list (vtree * vtree)) : option vtree :=
  match kvs with
  | [] => None
  | (k', v) :: r => if key_is k k' then Some v else vlookup k r
  end.

(* d[StringType(k)] = v *)
Fixpoint vset (k : string) (v : vtree) (kvs : list (vtree * vtree)) : list (vtree * vtree) :=
  match kvs with
  | [] => [(VStr k, v)]
  | (k', v') :: r => if key_is k k' then (k', v) :: r else (k', v') :: vset k v r
  end.

(* ---------- what Runner.evaluate did at one evaluation site ---------- *)
Inductive raw :=
| RRaise                (* raised celpy.CELEvalError *)
| RRaiseOther           (* raised anything else *)
| RVal (v : vtree).     (* returned a value (possibly with embedded error objects) *)

Notation outcome := (Outcome.outcome vtree).

(* The PermFail built for an evaluation failure.  Its message is prose that
   always begins with a fixed phrase followed by the caller's location string
   between backquotes; only that prefix is modelled ([Some prefix]).  The
   [location] attribute is the dump of the failing sub-tree (may be empty) on
   the CELEvalError paths — not modelled ([None]). *)
Definition msg_eval (loc : string) : string := "Error evaluating `" ++ loc ++ "`".
Definition msg_unknown (loc : string) : string := "Unknown failure evaluating `" ++ loc ++ "`.".
Definition fail_eval (loc : string) : outcome := PermFail (Some (msg_eval loc)) None.
Definition fail_unknown (loc : string) : outcome := PermFail (Some (msg_unknown loc)) None.

(* ---------- evaluate ----------
     try:    v = expression.evaluate(inputs)
             if err := check_for_celevalerror(v, location): return err
             return v
     except celpy.CELEvalError as err:  return PermFail("Error evaluating `loc` (at <tree>) ...")
     except:                            return PermFail("Unknown failure evaluating `loc`.")
   Nothing in the handlers can raise: the tree text comes from _tree_text, which swallows the
   IndexError celpy's tree_dump raises on some trees (repaired in /repo commit 4ee1f6b; before
   that an error whose tree tree_dump cannot print escaped from the handler). *)
Inductive eres :=
| ENone                 (* no expression: returns None *)
| EVal (v : vtree)
| EFail (o : outcome).

Definition evaluate (e : option raw) (loc : string) : eres :=
  match e with
  | None => ENone
  | Some RRaise => EFail (fail_eval loc)
  | Some RRaiseOther => EFail (fail_unknown loc)
  | Some (RVal v) => if scan v then EFail (fail_eval loc) else EVal v
  end.

(* ---------- overlays ---------- *)
(* cel/prepare.py Index = dict[str, Index] | int *)
Inductive index :=
| IAt (n : nat)
| ISub (kvs : list (string * index)).

Inductive exn := IndexError | ValueError | TypeError.
Inductive res (A : Type) := Done (a : A) | Raised (e : exn).
Arguments Done {A}. Arguments Raised {A}.

(* _overlay_applier(base, index, values):
     overlaid = deepcopy(base)
     for key, vi in index.items():
       int  -> overlaid[key] = values[vi]                      (IndexError if out of range)
       dict -> overlaid[key] = applier(base.get(key) if that is a dict else MapType(), vi, values)
     return overlaid
   [apply_idx i old values] is the value written under a key whose index entry is [i] and
   whose value in the base is [old].  (index keys are distinct, so base.get(key) and
   overlaid.get(key) agree when key is processed.) *)
Fixpoint apply_idx (i : index) (old : option vtree) (values : list vtree) {struct i} : res vtree :=
  match i with
  | IAt n => match nth_error values n with Some v => Done v | None => Raised IndexError end
  | ISub kvs =>
      let base := match old with Some (VMap m) => m | _ => [] end in
      match
        (fix go (kvs : list (string * index)) (acc : list (vtree * vtree))
           : res (list (vtree * vtree)) :=
           match kvs with
           | [] => Done acc
           | (k, i') :: r =>
               match apply_idx i' (vlookup k base) values with
               | Raised e => Raised e
               | Done v => go r (vset k v acc)
               end
           end) kvs base
      with
      | Done m => Done (VMap m)
      | Raised e => Raised e
      end
  end.

Definition msg_bad_overlay (loc : string) : string := "Bad overlay structure for `" ++ loc ++ "`".

(* ---------- evaluate_overlay ----------
   NB the applier runs outside the try block: an IndexError would escape. *)
Definition evaluate_overlay (idx : index) (r : raw) (base : list (vtree * vtree)) (loc : string)
  : res (uoutcome vtree) :=
  match idx with
  | IAt _ => Done (UOut (PermFail (Some (msg_bad_overlay loc)) (Some loc)))
  | ISub _ =>
      match r with
      | RRaise => Done (UOut (fail_eval loc))
      | RRaiseOther => Done (UOut (fail_unknown loc))
      | RVal v =>
          if scan v then Done (UOut (fail_eval loc))
          else match v with
               | VList values =>
                   match apply_idx idx (Some (VMap base)) values with
                   | Done m => Done (UVal m)
                   | Raised e => Raised e
                   end
               | _ => Done (UOut (PermFail (Some (msg_bad_overlay loc)) (Some loc)))
               end
      end
  end.
