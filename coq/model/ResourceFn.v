(* ResourceFn.v — model of src/koreo/resource_function/reconcile/__init__.py:
   reconcile_resource_function, reconcile_krm_resource,
   _construct_resource_template, _materialize_from_overlays,
   _create_api_resource, _forced_overlay, plus functions._deep_overlay and
   evaluation._overlay_applier as used by them.

   CEL evaluation is NOT modelled here: a [scenario] carries what every
   expression site evaluated to (a document, a stop outcome, an error), and the
   comparator's verdict [s_match] (validate_match is modelled in Validate.v).
   The correspondence harness obtains those from the real run (it controls the
   values through the inputs it supplies) and checks that, given them, the real
   function makes exactly the API calls and returns exactly the result this
   model computes.  Fault-free API (faults: Faults.v).  Proof-free. *)
From Koreo Require Export Json Payload.
Local Open Scope list_scope.

(* ---------- overlay semantics ---------- *)

(* functions._deep_overlay(resource, overlay): two map VALUES merge key by
   key; anything else replaces.  `field in resource` looks at the copy being
   updated. *)
Fixpoint merge_val (res ov : json) {struct ov} : json :=
  match ov, res with
  | JMap okvs, JMap rkvs =>
      JMap ((fix go (l : list (string * json)) (acc : list (string * json)) : list (string * json) :=
               match l with
               | [] => acc
               | (k, v) :: r =>
                   let nv := match lookup k acc, v with
                             | Some (JMap rm), JMap _ => merge_val (JMap rm) v
                             | _, _ => v
                             end in
                   go r (set_key k nv acc)
               end) okvs rkvs)
  | _, _ => ov
  end.

(* An overlay document after evaluation of its leaves: the STRUCTURE (which
   maps were written literally, non-empty, in the overlay) is static; a leaf
   is any evaluated value (a computed map is a leaf and replaces). *)
Inductive odoc := OLeaf (v : json) | ONode (kvs : list (string * odoc)).

(* evaluation._overlay_applier(base, index, values) *)
Fixpoint overlay_doc (base : list (string * json)) (d : odoc) {struct d} : json :=
  match d with
  | OLeaf v => v
  | ONode kvs =>
      JMap ((fix go (l : list (string * odoc)) (acc : list (string * json)) : list (string * json) :=
               match l with
               | [] => acc
               | (k, dv) :: r =>
                   let nv := match dv with
                             | OLeaf v => v
                             | ONode _ =>
                                 overlay_doc (match lookup k base with
                                              | Some (JMap m) => m
                                              | _ => []
                                              end) dv
                             end in
                   go r (set_key k nv acc)
               end) kvs base)
  end.

Definition apply_overlay (base : json) (d : odoc) : json :=
  match base with
  | JMap b => overlay_doc b d
  | _ => overlay_doc [] d
  end.

(* ---------- configuration (prepare_resource_function output) ---------- *)

Inductive update_policy := UPatch (d : Z) | URecreate (d : Z) | UNever.

Record cfg := {
  c_version : string;            (* apiConfig.apiVersion *)
  c_kind : string;
  c_plural : option string;      (* None = PLURAL_LOOKUP_NEEDED *)
  c_namespaced : bool;
  c_owned : bool;
  c_readonly : bool;
  c_delete_if_exists : bool;
  c_create_enabled : bool;
  c_create_delay : Z;
  c_update : update_policy }.

(* ---------- what the expression sites evaluated to ---------- *)

(* an outcome that is passed through unchanged; [tag] identifies which *)
Inductive stop := StopPermFail (tag : string) | StopRetry (d : Z) (tag : string)
                | StopSkip (tag : string) | StopDepSkip (tag : string).

Inductive name_res :=
| NameErr                        (* evaluate -> PermFail *)
| NameNull                       (* evaluate -> None *)
| NameBad                        (* not a map with "name" *)
| NameOk (name : string) (ns : option string).
  (* f"{name_value}", and f"{namespace_value}" when that value is truthy *)

Inductive tmpl :=
| TNone                                   (* resource_template is None *)
| TInlineErr | TInlineBad                 (* PermFail / not a mapping *)
| TInline (m : option json)               (* evaluated map, or None *)
| TRefNameErr | TRefNameBad
| TRefMissing | TRefNotReady              (* cache miss / cached failure -> Retry *)
| TRef (m : json).                        (* the cached template's document *)

Inductive skip_res := SNone | SErr | SBad | SBool (b : bool).

Inductive ov_body :=
| OInlineErr                              (* evaluate_overlay -> PermFail *)
| OInline (d : odoc)
| OFnInputsStop (s : stop)                (* overlay inputs failed to evaluate *)
| OFnStop (s : stop)                      (* the ValueFunction stopped / failed *)
| OFnNotMap                               (* it returned a non-mapping (e.g. no return) *)
| OFn (d : odoc).                         (* its return document, applied over the running resource *)

Record ov := { o_skip : skip_res; o_body : ov_body }.

Inductive ovs := OvNone | OvStop (s : stop) | OvList (l : list ov).

Inductive cov := CNone | CErr | CDoc (d : odoc).

Record scenario := {
  s_cfg : cfg;
  s_pre : option stop;             (* preconditions: Some = stop *)
  s_locals_err : bool;
  s_name : name_res;
  s_lookup : option string;        (* dynamic plural lookup result, if needed *)
  s_live : option json;            (* the object the API returns (kr8s has injected kind/apiVersion) *)
  s_template : tmpl;
  s_overlays : ovs;
  s_create_overlay : cov;
  s_owner_ns : option string;
  s_owner_ref : json;
  s_match : bool;                  (* validate_match(...).match on (target, live, last-applied) *)
  s_post : option stop;
  s_return : option json }.        (* evaluated return (None = no return expression) *)

(* ---------- results ---------- *)

Inductive call :=
| CGet (plural : string) (ns : option string) (name : string)
| CPost (plural : string) (ns : option string) (body : prepared)
| CPatch (plural : string) (ns : option string) (name : string) (body : prepared)
| CDelete (plural : string) (ns : option string) (name : string).

Inductive kres :=
| KStop (s : stop)
| KObj (o : json)                 (* the live object (or {} for delete-if-exists on nothing) *)
| KRaise.                         (* a Python exception would escape *)

Definition DEFAULT_LOAD_RETRY_DELAY : Z := 30.

(* _forced_overlay *)
Definition forced_overlay (c : cfg) (name : string) (ns : option string) : json :=
  JMap [("apiVersion", JStr (c_version c)); ("kind", JStr (c_kind c));
        ("metadata", JMap (("name", JStr name) ::
                           match ns with Some n => [("namespace", JStr n)] | None => [] end))].

(* _construct_resource_template *)
Definition construct_template (t : tmpl) (forced : json) : json + stop :=
  match t with
  | TNone => inl forced
  | TInlineErr => inr (StopPermFail "spec.resource")
  | TInlineBad => inr (StopPermFail "spec.resource<type>")
  | TInline None => inl (merge_val (JMap []) forced)
  | TInline (Some m) => inl (merge_val m forced)
  | TRefNameErr => inr (StopPermFail "spec.resourceTemplateRef.name")
  | TRefNameBad => inr (StopPermFail "spec.resourceTemplateRef.name<type>")
  | TRefMissing => inr (StopRetry DEFAULT_LOAD_RETRY_DELAY "template not found")
  | TRefNotReady => inr (StopRetry DEFAULT_LOAD_RETRY_DELAY "template not ready")
  | TRef m => inl (merge_val m forced)
  end.

(* one step of _materialize_from_overlays *)
Definition overlay_step (cur : json) (o : ov) : json + stop :=
  let apply :=
    match o_body o with
    | OInlineErr => inr (StopPermFail "overlay")
    | OInline d => inl (apply_overlay cur d)
    | OFnInputsStop s => inr s
    | OFnStop s => inr s
    | OFnNotMap => inr (StopPermFail "overlayRef<type>")
    | OFn d => inl (apply_overlay cur d)
    end in
  match o_skip o with
  | SErr => inr (StopPermFail "skipIf")
  | SBad => inr (StopPermFail "skipIf<type>")
  | SBool true => inl cur
  | SBool false | SNone => apply
  end.

Fixpoint overlay_steps (cur : json) (l : list ov) : json + stop :=
  match l with
  | [] => inl cur
  | o :: r => match overlay_step cur o with
              | inl nxt => overlay_steps nxt r
              | inr s => inr s
              end
  end.

(* the Target Resource Specification *)
Definition materialize (s : scenario) (forced : json) : json + stop :=
  match construct_template (s_template s) forced with
  | inr st => inr st
  | inl base =>
      match s_overlays s with
      | OvNone => inl base
      | OvStop st => inr st
      | OvList [] => inl base                       (* `if crud_config.overlays:` is falsy *)
      | OvList l =>
          match overlay_steps base l with
          | inr st => inr st
          | inl cur => inl (merge_val cur forced)
          end
      end
  end.

Definition rf_set_owner_refs (obj : json) (refs : list json) : json :=
  match obj with
  | JMap top =>
      match lookup "metadata" top with
      | Some (JMap md) => JMap (set_key "metadata" (JMap (set_key "ownerReferences" (JList refs) md)) top)
      | _ => obj
      end
  | _ => obj
  end.

(* kr8s: APIObject(resource=…, namespace=ns) writes raw["metadata"]["namespace"] = ns when ns is given *)
Definition kr8s_set_namespace (p : prepared) (ns : option string) : prepared :=
  match ns, body p with
  | Some n, JMap top =>
      match lookup "metadata" top with
      | Some (JMap md) =>
          {| body := JMap (set_key "metadata" (JMap (set_key "namespace" (JStr n) md)) top);
             recorded := recorded p |}
      | _ => p
      end
  | _, _ => p
  end.

(* namespace argument kr8s passes to call_api: the object's own namespace for a namespaced class *)
Definition call_ns (c : cfg) (obj : json) : option string :=
  if c_namespaced c then
    match obj with
    | JMap top => match lookup "metadata" top with
                  | Some (JMap md) => match lookup "namespace" md with
                                      | Some (JStr n) => Some n
                                      | _ => Some "default"      (* api.namespace of the test double *)
                                      end
                  | _ => Some "default"
                  end
    | _ => Some "default"
    end
  else None.

(* _create_api_resource (fault-free API) *)
Definition create_resource (s : scenario) (plural : string) (ns : option string)
           (view forced : json) : kres * list call :=
  let c := s_cfg s in
  let view1 :=
    match s_create_overlay s with
    | CNone => inl view
    | CErr => inr (StopPermFail "spec.create.overlay")
    | CDoc d => inl (apply_overlay view d)
    end in
  match view1 with
  | inr st => (KStop st, [])
  | inl v1 =>
      let v2 := merge_val v1 forced in
      let owned_here := c_owned c && opt_str_eqb (s_owner_ns s) ns in
      let v3 :=
        if owned_here then
          match updated_owner_refs v2 (s_owner_ref s) with
          | OwnerRefs l => inl (rf_set_owner_refs v2 l)
          | OwnerPermFail => inr (StopPermFail "<api-add-owner>")
          end
        else inl v2 in
      match v3 with
      | inr st => (KStop st, [])
      | inl v4 =>
          match prepare_for_api v4 with
          | Raised _ => (KRaise, [])
          | Done p =>
              let p' := kr8s_set_namespace p ns in
              (KStop (StopRetry (c_create_delay c) "spec.create"),
               [CPost plural (call_ns c (body p')) p'])
          end
      end
  end.

(* reconcile_krm_resource *)
Definition reconcile_krm (s : scenario) : kres * list call :=
  let c := s_cfg s in
  match s_name s with
  | NameErr => (KStop (StopPermFail "spec.apiConfig.name"), [])
  | NameNull => (KStop (StopPermFail "spec.apiConfig.name<null>"), [])
  | NameBad => (KStop (StopPermFail "spec.apiConfig.name<type>"), [])
  | NameOk name ns =>
      if (match ns with None => true | Some _ => false end) && c_namespaced c
      then (KStop (StopPermFail "spec.apiConfig.namespace"), []) else
      let plural_r := match c_plural c with
                      | Some p => Some p
                      | None => s_lookup s
                      end in
      match plural_r with
      | None => (KStop (StopPermFail "spec.apiConfig.plural"), [])
      | Some plural =>
          let get := CGet plural ns name in
          if c_delete_if_exists c then
            match s_live s with
            | None => (KObj (JMap []), [get])
            | Some live => (KStop (StopRetry DEFAULT_LOAD_RETRY_DELAY "deleting"),
                            [get; CDelete plural (call_ns c live) name])
            end
          else
          match s_live s with
          | None =>
              if c_readonly c || negb (c_create_enabled c)
              then (KStop (StopRetry DEFAULT_LOAD_RETRY_DELAY "not found"), [get])
              else
                let forced := forced_overlay c name ns in
                match materialize s forced with
                | inr st => (KStop st, [get])
                | inl expected =>
                    let '(r, calls) := create_resource s plural ns expected forced in
                    (r, get :: calls)
                end
          | Some live =>
              if c_readonly c then (KObj live, [get]) else
              let forced := forced_overlay c name ns in
              match materialize s forced with
              | inr st => (KStop st, [get])
              | inl expected =>
                  let should_own := c_owned c && opt_str_eqb (s_owner_ns s) ns in
                  let owner_reffed :=
                    if should_own then reffed_truthy (validate_owner_reffed live (s_owner_ref s))
                    else true in
                  if s_match s && owner_reffed then (KObj live, [get]) else
                  match c_update c with
                  | UNever => (KObj live, [get])
                  | URecreate d =>
                      (KStop (StopRetry d "spec.update.recreate"),
                       [get; CDelete plural (call_ns c live) name])
                  | UPatch d =>
                      let target :=
                        if should_own && negb owner_reffed then
                          match updated_owner_refs live (s_owner_ref s) with
                          | OwnerRefs l => inl (rf_set_owner_refs expected l)
                          | OwnerPermFail => inr (StopPermFail "<api-add-owner>")
                          end
                        else inl expected in
                      match target with
                      | inr st => (KStop st, [get])
                      | inl t =>
                          match prepare_for_api t with
                          | Raised _ => (KRaise, [get])
                          | Done p =>
                              (KStop (StopRetry d "spec.update.patch"),
                               [get; CPatch plural (call_ns c live) name p])
                          end
                      end
                  end
              end
          end
      end
  end.

(* reconcile_resource_function *)
Inductive fres :=
| FStop (s : stop)
| FValue (v : option json)        (* evaluated return; None when there is no return expression *)
| FRaise.

Definition reconcile_rf (s : scenario) : fres * list call :=
  match s_pre s with
  | Some st => (FStop st, [])
  | None =>
      if s_locals_err s then (FStop (StopPermFail "spec.locals"), []) else
      match reconcile_krm s with
      | (KStop st, calls) => (FStop st, calls)
      | (KRaise, calls) => (FRaise, calls)
      | (KObj _, calls) =>
          match s_post s with
          | Some st => (FStop st, calls)
          | None => (FValue (s_return s), calls)
          end
      end
  end.

(* ---------- what the calls do to the cluster ---------- *)

Definition is_mutation (c : call) : bool :=
  match c with CGet _ _ _ => false | _ => true end.
Definition is_post (c : call) : bool := match c with CPost _ _ _ => true | _ => false end.
Definition is_patch (c : call) : bool := match c with CPatch _ _ _ _ => true | _ => false end.
Definition is_delete (c : call) : bool := match c with CDelete _ _ _ => true | _ => false end.

(* the stored object after a pass, for the single object the function manages *)
Definition apply_call (live : option json) (c : call) : option json :=
  match c with
  | CGet _ _ _ => live
  | CPost _ _ p => Some (body p)
  | CPatch _ _ _ p => match live with
                      | Some l => Some (merge_patch l (body p))
                      | None => None
                      end
  | CDelete _ _ _ => None
  end.

Definition apply_calls (live : option json) (cs : list call) : option json :=
  fold_left apply_call cs live.
