(* Tree.v — lark's generic parse tree and the CEL grammar of cel-python 0.3.0
   (site-packages/celpy/cel.lark, lark 0.12, no placeholders for absent
   optional parts) as a predicate on such trees.  Proof-free; proofs are in
   proofs/Extract_proofs.v.

   lark:  Tree(data, children)   with children a list of Tree | Token
          Token(type, value)     (a str subclass whose text is [value])

   [cel_tree_wf] is validated against the real parser on every run of the
   C14 check: every tree celpy produces (generated + hand-written corpus) is
   converted to a [node] and must satisfy it. *)
From Coq Require Export List String Ascii Bool Arith.
Export ListNotations.
Local Open Scope string_scope.
Local Open Scope list_scope.
Local Open Scope nat_scope.

Inductive node : Type :=
| N (data : string) (children : list node)      (* lark.Tree *)
| Tok (type value : string).                    (* lark.Token *)

(* induction principle reaching inside the nested list *)
Section NodeInd.
  Variable P : node -> Prop.
  Hypothesis HN : forall d cs, Forall P cs -> P (N d cs).
  Hypothesis HT : forall ty v, P (Tok ty v).
  Fixpoint node_ind' (n : node) : P n :=
    match n with
    | N d cs =>
        HN d cs ((fix go (l : list node) : Forall P l :=
                    match l with
                    | [] => Forall_nil _
                    | x :: r => Forall_cons _ (node_ind' x) (go r)
                    end) cs)
    | Tok ty v => HT ty v
    end.
End NodeInd.

Definition is_tree (n : node) : bool := match n with N _ _ => true | Tok _ _ => false end.

(* Tree.iter_subtrees(): every Tree-typed descendant, the tree itself included
   (the extractor builds a set from it, so the order is immaterial; a parse
   tree shares no nodes, so the id()-deduplication is the identity) *)
Fixpoint subtrees (n : node) : list node :=
  match n with
  | Tok _ _ => []
  | N _ cs => n :: flat_map subtrees cs
  end.

Fixpoint size (n : node) : nat :=
  match n with
  | Tok _ _ => 1
  | N _ cs => S (list_sum (map size cs))
  end.

(* ------------------------------------------------------------------ *)
(* The grammar.  Nonterminals of cel.lark: *)
Inductive nt :=
| Expr | Conditionalor | Conditionaland
| Relation | Relation_lt | Relation_le | Relation_gt | Relation_ge | Relation_eq | Relation_ne | Relation_in
| Addition | Addition_add | Addition_sub
| Multiplication | Multiplication_mul | Multiplication_div | Multiplication_mod
| Unary | Unary_not | Unary_neg
| Member | Member_dot | Member_dot_arg | Member_index | Member_object
| Primary | Dot_ident_arg | Dot_ident | Ident_arg | Ident | Paren_expr | List_lit | Map_lit
| Exprlist | Fieldinits | Mapinits | Literal.

Definition nt_name (x : nt) : string :=
  match x with
  | Expr => "expr" | Conditionalor => "conditionalor" | Conditionaland => "conditionaland"
  | Relation => "relation" | Relation_lt => "relation_lt" | Relation_le => "relation_le"
  | Relation_gt => "relation_gt" | Relation_ge => "relation_ge" | Relation_eq => "relation_eq"
  | Relation_ne => "relation_ne" | Relation_in => "relation_in"
  | Addition => "addition" | Addition_add => "addition_add" | Addition_sub => "addition_sub"
  | Multiplication => "multiplication" | Multiplication_mul => "multiplication_mul"
  | Multiplication_div => "multiplication_div" | Multiplication_mod => "multiplication_mod"
  | Unary => "unary" | Unary_not => "unary_not" | Unary_neg => "unary_neg"
  | Member => "member" | Member_dot => "member_dot" | Member_dot_arg => "member_dot_arg"
  | Member_index => "member_index" | Member_object => "member_object"
  | Primary => "primary" | Dot_ident_arg => "dot_ident_arg" | Dot_ident => "dot_ident"
  | Ident_arg => "ident_arg" | Ident => "ident" | Paren_expr => "paren_expr"
  | List_lit => "list_lit" | Map_lit => "map_lit"
  | Exprlist => "exprlist" | Fieldinits => "fieldinits" | Mapinits => "mapinits"
  | Literal => "literal"
  end.

Definition all_nts : list nt :=
  [Expr; Conditionalor; Conditionaland;
   Relation; Relation_lt; Relation_le; Relation_gt; Relation_ge; Relation_eq; Relation_ne; Relation_in;
   Addition; Addition_add; Addition_sub;
   Multiplication; Multiplication_mul; Multiplication_div; Multiplication_mod;
   Unary; Unary_not; Unary_neg;
   Member; Member_dot; Member_dot_arg; Member_index; Member_object;
   Primary; Dot_ident_arg; Dot_ident; Ident_arg; Ident; Paren_expr; List_lit; Map_lit;
   Exprlist; Fieldinits; Mapinits; Literal].

Definition nt_of_string (d : string) : option nt :=
  find (fun x => String.eqb (nt_name x) d) all_nts.

(* what a production sees of a child *)
Inductive head := HSub (x : option nt) | HTok (ty : string).

Definition head_of (c : node) : head :=
  match c with
  | N d _ => HSub (nt_of_string d)
  | Tok ty _ => HTok ty
  end.

Definition is_sub (x : nt) (h : head) : bool :=
  match h with
  | HSub (Some y) => String.eqb (nt_name x) (nt_name y)
  | _ => false
  end.

Definition is_sub_any (xs : list nt) (h : head) : bool := existsb (fun x => is_sub x h) xs.

Definition is_tok (ty : string) (h : head) : bool :=
  match h with HTok t => String.eqb t ty | _ => false end.

Definition literal_token_types : list string :=
  ["UINT_LIT"; "FLOAT_LIT"; "INT_LIT"; "MLSTRING_LIT"; "STRING_LIT"; "BYTES_LIT"; "BOOL_LIT"; "NULL_LIT"].

(* (p q)+ *)
Fixpoint pairs_ok (p q : head -> bool) (hs : list head) : bool :=
  match hs with
  | [] => true
  | a :: b :: r => p a && q b && pairs_ok p q r
  | _ => false
  end.

Definition nonempty {A} (l : list A) : bool := match l with [] => false | _ => true end.

(* [lhs op] rhs  where the optional left part is one node *)
Definition opt_left (lefts : list nt) (right : nt) (hs : list head) : bool :=
  match hs with
  | [a] => is_sub right a
  | [a; b] => is_sub_any lefts a && is_sub right b
  | _ => false
  end.

(* IDENT [exprlist] *)
Definition ident_optargs (hs : list head) : bool :=
  match hs with
  | [a] => is_tok "IDENT" a
  | [a; b] => is_tok "IDENT" a && is_sub Exprlist b
  | _ => false
  end.

(* one rule of cel.lark per line: the children a node of that name can have *)
Definition shape (x : nt) (hs : list head) : bool :=
  match x with
  | Expr => match hs with
            | [a] => is_sub Conditionalor a
            | [a; b; c] => is_sub Conditionalor a && is_sub Conditionalor b && is_sub Expr c
            | _ => false
            end
  | Conditionalor => opt_left [Conditionalor] Conditionaland hs
  | Conditionaland => opt_left [Conditionaland] Relation hs
  | Relation => opt_left [Relation_lt; Relation_le; Relation_ge; Relation_gt; Relation_eq; Relation_ne; Relation_in]
                         Addition hs
  | Relation_lt | Relation_le | Relation_gt | Relation_ge | Relation_eq | Relation_ne | Relation_in =>
      match hs with [a] => is_sub Relation a | _ => false end
  | Addition => opt_left [Addition_add; Addition_sub] Multiplication hs
  | Addition_add | Addition_sub => match hs with [a] => is_sub Addition a | _ => false end
  | Multiplication => opt_left [Multiplication_mul; Multiplication_div; Multiplication_mod] Unary hs
  | Multiplication_mul | Multiplication_div | Multiplication_mod =>
      match hs with [a] => is_sub Multiplication a | _ => false end
  | Unary => match hs with
             | [a] => is_sub Member a
             | [a; b] => is_sub_any [Unary_not; Unary_neg] a && is_sub Unary b
             | _ => false
             end
  | Unary_not | Unary_neg => match hs with [] => true | _ => false end
  | Member => match hs with
              | [a] => is_sub_any [Member_dot; Member_dot_arg; Member_index; Member_object; Primary] a
              | _ => false
              end
  | Member_dot => match hs with [a; b] => is_sub Member a && is_tok "IDENT" b | _ => false end
  | Member_dot_arg => match hs with
                      | [a; b] => is_sub Member a && is_tok "IDENT" b
                      | [a; b; c] => is_sub Member a && is_tok "IDENT" b && is_sub Exprlist c
                      | _ => false
                      end
  | Member_index => match hs with [a; b] => is_sub Member a && is_sub Expr b | _ => false end
  | Member_object => match hs with
                     | [a] => is_sub Member a
                     | [a; b] => is_sub Member a && is_sub Fieldinits b
                     | _ => false
                     end
  | Primary => match hs with
               | [a] => is_sub_any [Literal; Dot_ident_arg; Dot_ident; Ident_arg; Paren_expr; List_lit; Map_lit; Ident] a
               | _ => false
               end
  | Dot_ident_arg | Ident_arg => ident_optargs hs
  | Dot_ident | Ident => match hs with [a] => is_tok "IDENT" a | _ => false end
  | Paren_expr => match hs with [a] => is_sub Expr a | _ => false end
  | List_lit => match hs with [] => true | [a] => is_sub Exprlist a | _ => false end
  | Map_lit => match hs with [] => true | [a] => is_sub Mapinits a | _ => false end
  | Exprlist => nonempty hs && forallb (is_sub Expr) hs
  | Fieldinits => nonempty hs && pairs_ok (is_tok "IDENT") (is_sub Expr) hs
  | Mapinits => nonempty hs && pairs_ok (is_sub Expr) (is_sub Expr) hs
  | Literal => match hs with
               | [a] => existsb (fun ty => is_tok ty a) literal_token_types
               | _ => false
               end
  end.

(* ---- terminals ---- *)
Definition in_range (lo hi : nat) (a : ascii) : bool :=
  let n := nat_of_ascii a in (lo <=? n) && (n <=? hi).

Definition is_alpha_ (a : ascii) : bool :=
  in_range 65 90 a || in_range 97 122 a || Ascii.eqb a "_"%char.
Definition is_digit (a : ascii) : bool := in_range 48 57 a.
(* the POSIX class [[:word:]] / CEL's IDENT tail *)
Definition is_word (a : ascii) : bool := is_alpha_ a || is_digit a.

Fixpoint all_chars (p : ascii -> bool) (s : string) : bool :=
  match s with
  | EmptyString => true
  | String a r => p a && all_chars p r
  end.

(* IDENT : /[_a-zA-Z][_a-zA-Z0-9]*/ *)
Definition ident_ok (v : string) : bool :=
  match v with
  | EmptyString => false
  | String a r => is_alpha_ a && all_chars is_word r
  end.

(* what [cel_tree_wf] asks of a token: identifiers are identifiers, no token
   is empty (a lexer never produces an empty token) *)
Definition tok_ok (c : node) : bool :=
  match c with
  | N _ _ => true
  | Tok ty v => if String.eqb ty "IDENT" then ident_ok v else negb (String.eqb v "")
  end.

(* the trees the grammar can produce (for any nonterminal as root) *)
Fixpoint cel_tree_wf (n : node) : bool :=
  match n with
  | Tok _ _ => false
  | N d cs =>
      match nt_of_string d with
      | None => false
      | Some x =>
          shape x (map head_of cs) && forallb tok_ok cs &&
          forallb (fun c => match c with Tok _ _ => true | N _ _ => cel_tree_wf c end) cs
      end
  end.

(* what celpy's Environment.compile returns: an [expr] *)
Definition cel_expr_wf (n : node) : bool :=
  match n with
  | N d _ => String.eqb d "expr" && cel_tree_wf n
  | Tok _ _ => false
  end.

(* expr -> conditionalor -> ... : the single-child wrapper chain from level
   [i] down to level [j] (0 = expr ... 8 = primary) around [x]; used by the
   generated correspondence files to keep terms short, and by the property
   statements to describe "a plain literal as an index expression" *)
Definition levels : list string :=
  ["expr"; "conditionalor"; "conditionaland"; "relation"; "addition"; "multiplication"; "unary"; "member"; "primary"].

Definition chain (ds : list string) (x : node) : node := fold_right (fun d acc => N d [acc]) x ds.

Definition ch (i j : nat) (x : node) : node := chain (firstn (S j - i) (skipn i levels)) x.
